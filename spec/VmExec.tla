------------------------------- MODULE VmExec -------------------------------
(***************************************************************************)
(* The execution loop of the VM (crates/vm/src/vm.rs Vm::exec), gas        *)
(* accounting and the Compute fork/join (crates/vm/src/compute.rs).        *)
(*                                                                         *)
(* Two formulations that share every definition:                           *)
(*   - a big-step function Exec(vm, gas, C) that runs compute children one *)
(*     after another by recursion ("SeqExec": the sequential reference of  *)
(*     C02/C10 and the oracle for whole-run trace validation);             *)
(*   - a small-step state machine (Init/Next below) in which the children  *)
(*     of a Compute interleave freely, used by TLC to check that every     *)
(*     interleaving ends in the state the sequential reference computes.   *)
(*                                                                         *)
(* Context C == [prog  sequence of ops (pc is 0-based: op = prog[pc+1]),   *)
(*               env   environment of VmOps (without resp),                *)
(*               cost  function op name -> gas cost,                       *)
(*               limit total gas limit,                                    *)
(*               reads sequence of [req, resp]: the state as a lookup      *)
(*                     table keyed by request]                             *)
(***************************************************************************)
EXTENDS VmOps

CONSTANTS GasMax,          \* u64::MAX in the real instance
          ChildGasShared   \* FALSE: as coded today (F9) - every child starts at 0 with the
                           \* full limit; TRUE: intended - children draw on the parent's budget

-----------------------------------------------------------------------------
EmptyResp == [ok |-> TRUE, vals |-> <<>>]
IsStateRead(op) == op.n \in {"KRNG", "KREX", "PKRNG", "PKREX"}

\* The response the recorded state gives to a request ([ok |-> FALSE] = state error);
\* a request that was never recorded has no response: the run cannot be explained.
RECURSIVE Lookup(_, _)
Lookup(reads, req) ==
  IF reads = <<>> THEN [found |-> FALSE]
  ELSE IF Head(reads).req = req THEN [found |-> TRUE, resp |-> Head(reads).resp]
  ELSE Lookup(Tail(reads), req)

\* One operation other than COM, with the state consulted for key-range reads.
StepWithState(op, vm, C) ==
  IF ~IsStateRead(op) THEN StepOp(op, vm, [C.env EXCEPT !.resp = EmptyResp])
  ELSE LET probe == StepOp(op, vm, [C.env EXCEPT !.resp = EmptyResp]) IN
       IF probe.k = "err" THEN probe
       ELSE LET ans == Lookup(C.reads, probe.req) IN
            IF ~ans.found THEN E("unrecorded request")
            ELSE StepOp(op, vm, [C.env EXCEPT !.resp = ans.resp])

\* Gas check before the op (vm.rs: checked_add + filter(<= limit)).
ChargeOk(gas, c, limit) == gas + c <= GasMax /\ gas + c <= limit

\* Outcomes of a run
Done(vm, gas)      == [k |-> "ok",  vm |-> vm, gas |-> gas]
Fail(vm, gas, c)   == [k |-> "err", vm |-> vm, gas |-> gas, c |-> c]    \* at vm.pc
OutOfGas(vm, gas)  == [k |-> "oog", vm |-> vm, gas |-> gas]             \* at vm.pc, nothing executed

\* Child i of a Compute executed by parent vm (whose breadth has been popped: rest)
ChildInit(vm, rest, i) ==
  [pc |-> vm.pc + 1, st |-> Append(rest, i), mem |-> <<>>,
   pm |-> Append(vm.pm, vm.mem), rep |-> vm.rep, halt |-> FALSE]

Max(a, b) == IF a >= b THEN a ELSE b

-----------------------------------------------------------------------------
(* Big-step sequential execution *)
RECURSIVE Exec(_, _, _)
RECURSIVE RunKids(_, _, _, _, _, _)

\* Runs children i..n-1 in index order.  acc = [mem, pc, gas, halt] accumulated so far;
\* base is the gas a child starts from (0 as coded; the running total when shared).
RunKids(vm, rest, i, n, acc, C) ==
  IF i = n THEN [k |-> "ok", acc |-> acc]
  ELSE LET start == IF ChildGasShared THEN acc.gas ELSE 0
           r == Exec(ChildInit(vm, rest, i), start, C) IN
       IF r.k # "ok" THEN [k |-> r.k, c |-> IF r.k = "err" THEN r.c ELSE "child out of gas"]
       ELSE LET used == IF ChildGasShared THEN r.gas - acc.gas ELSE r.gas IN
            IF acc.gas + used > GasMax THEN [k |-> "err", c |-> "gas overflow"]
            ELSE RunKids(vm, rest, i + 1, n,
                         [mem |-> acc.mem \o r.vm.mem, pc |-> Max(acc.pc, r.vm.pc),
                          gas |-> acc.gas + used, halt |-> acc.halt \/ r.vm.halt], C)

\* The Compute op on parent vm with gas g (already charged for COM itself).
\* Returns a run outcome whose vm is the parent after the join (not yet continued).
ComputeStep(vm, g, C) ==
  LET st == vm.st IN
  IF Len(st) < 1 THEN Fail(vm, g, "stack empty")
  ELSE LET n == st[Len(st)]
           rest == DropLast(st, 1) IN
  IF n < 1 THEN Fail(vm, g, "invalid breadth")
  ELSE IF Len(vm.pm) >= MaxDepth THEN Fail(vm, g, "depth reached")
  ELSE IF Len(rest) >= StackLimit THEN Fail(vm, g, "stack overflow")   \* pushing the index
  ELSE LET kids == RunKids(vm, rest, 0, n,
                           [mem |-> <<>>, pc |-> vm.pc, gas |-> IF ChildGasShared THEN g ELSE 0,
                            halt |-> vm.halt], C) IN
  IF kids.k # "ok" THEN Fail(vm, g, kids.c)
  ELSE IF Len(vm.mem) + Len(kids.acc.mem) > MemLimit THEN Fail(vm, g, "memory overflow")
  ELSE LET total == IF ChildGasShared THEN kids.acc.gas ELSE g + kids.acc.gas IN
       IF total > GasMax \/ total > C.limit THEN Fail(vm, g, "out of gas at the join")
       ELSE Done([vm EXCEPT !.st = rest, !.mem = vm.mem \o kids.acc.mem,
                            !.pc = kids.acc.pc, !.halt = kids.acc.halt], total)

Exec(vm, gas, C) ==
  IF vm.pc < 0 \/ vm.pc >= Len(C.prog) THEN Done(vm, gas)
  ELSE LET op == C.prog[vm.pc + 1]
           c == C.cost[op.n] IN
  IF ~ChargeOk(gas, c, C.limit) THEN OutOfGas(vm, gas)
  ELSE LET g == gas + c IN
  IF op.n = "COM"
  THEN LET r == ComputeStep(vm, g, C) IN
       IF r.k # "ok" THEN r
       ELSE IF r.vm.halt THEN r ELSE Exec(r.vm, r.gas, C)
  ELSE LET r == StepWithState(op, vm, C) IN
       IF r.k = "err" THEN Fail(vm, g, r.c)
       ELSE CASE r.ctl.t = "next" -> Exec([r.vm EXCEPT !.pc = vm.pc + 1], g, C)
              [] r.ctl.t = "pc"   -> Exec([r.vm EXCEPT !.pc = r.ctl.n], g, C)
              [] r.ctl.t = "halt" -> Done(r.vm, g)
              [] r.ctl.t = "come" -> Done([r.vm EXCEPT !.pc = vm.pc + 1], g)

\* Evaluation (vm.rs Vm::eval): the top of the final stack must be 0 or 1.
Eval(vm, gas, C) ==
  LET r == Exec(vm, gas, C) IN
  IF r.k # "ok" THEN [k |-> r.k]
  ELSE IF r.vm.st = <<>> \/ ~IsBoolW(r.vm.st[Len(r.vm.st)]) THEN [k |-> "invalid"]
  ELSE [k |-> "ok", b |-> r.vm.st[Len(r.vm.st)] = 1]

=============================================================================
