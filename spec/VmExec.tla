------------------------------- MODULE VmExec -------------------------------
(***************************************************************************)
(* The execution loop of the VM (crates/vm/src/vm.rs Vm::exec), gas        *)
(* accounting and the Compute fork/join (crates/vm/src/compute.rs).        *)
(*                                                                         *)
(* Two formulations that share every definition:                           *)
(*   - a big-step function Exec(vm, gas, C) that runs compute children one *)
(*     after another by recursion ("SeqExec": the sequential reference of  *)
(*     C02/C10 and the oracle for whole-run trace validation);             *)
(*   - a small-step state machine (Init/Next below) in which the children  *)
(*     of a Compute interleave freely, used by TLC to check that every     *)
(*     interleaving ends in the state the sequential reference computes.   *)
(*                                                                         *)
(* Context C == [prog  sequence of ops (pc is 0-based: op = prog[pc+1]),   *)
(*               env   environment of VmOps (without resp),                *)
(*               cost  function op name -> gas cost,                       *)
(*               limit total gas limit,                                    *)
(*               reads sequence of [req, resp]: the state as a lookup      *)
(*                     table keyed by request]                             *)
(***************************************************************************)
EXTENDS VmOps

CONSTANTS GasMax,          \* u64::MAX in the real instance
          ChildGasShared,  \* FALSE: as coded today (F9) - every child starts at 0 with the
                           \* full limit; TRUE: intended - children draw on the parent's budget
          Answer(_, _)     \* (C, request) -> [found, resp]: how the state answers a key-range
                           \* request; TableAnswer below looks it up in C.reads, Checker.tla
                           \* supplies the pre-state / post-state overlay model

-----------------------------------------------------------------------------
EmptyResp == [ok |-> TRUE, vals |-> <<>>]
IsStateRead(op) == op.n \in {"KRNG", "KREX", "PKRNG", "PKREX"}

\* The response the recorded state gives to a request ([ok |-> FALSE] = state error);
\* a request that was never recorded has no response: the run cannot be explained.
RECURSIVE Lookup(_, _)
Lookup(reads, req) ==
  IF reads = <<>> THEN [found |-> FALSE]
  ELSE IF Head(reads).req = req THEN [found |-> TRUE, resp |-> Head(reads).resp]
  ELSE Lookup(Tail(reads), req)

TableAnswer(C, req) == Lookup(C.reads, req)

\* One operation other than COM, with the state consulted for key-range reads.
StepWithState(op, vm, C) ==
  IF ~IsStateRead(op) THEN StepOp(op, vm, [C.env EXCEPT !.resp = EmptyResp])
  ELSE LET probe == StepOp(op, vm, [C.env EXCEPT !.resp = EmptyResp]) IN
       IF probe.k = "err" THEN probe
       ELSE LET ans == Answer(C, probe.req) IN
            IF ~ans.found THEN E("unrecorded request")
            ELSE StepOp(op, vm, [C.env EXCEPT !.resp = ans.resp])

\* Gas check before the op (vm.rs: checked_add + filter(<= limit)).
ChargeOk(gas, c, limit) == gas + c <= GasMax /\ gas + c <= limit

\* Outcomes of a run; log is the sequence of state requests made (children in index order)
DoneL(vm, gas, log)     == [k |-> "ok",  vm |-> vm, gas |-> gas, log |-> log]
FailL(vm, gas, c, log)  == [k |-> "err", vm |-> vm, gas |-> gas, c |-> c, log |-> log]   \* at vm.pc
OutOfGasL(vm, gas, log) == [k |-> "oog", vm |-> vm, gas |-> gas, log |-> log]   \* at vm.pc, nothing executed

\* Child i of a Compute executed by parent vm (whose breadth has been popped: rest)
ChildInit(vm, rest, i) ==
  [pc |-> vm.pc + 1, st |-> Append(rest, i), mem |-> <<>>,
   pm |-> Append(vm.pm, vm.mem), rep |-> vm.rep, halt |-> FALSE]

Max(a, b) == IF a >= b THEN a ELSE b

-----------------------------------------------------------------------------
(* Big-step sequential execution *)
RECURSIVE ExecL(_, _, _, _)
RECURSIVE RunKids(_, _, _, _, _, _)

\* Runs children i..n-1 in index order.  acc = [mem, pc, gas, halt, log] accumulated so far.
RunKids(vm, rest, i, n, acc, C) ==
  IF i = n THEN [k |-> "ok", acc |-> acc]
  ELSE LET start == IF ChildGasShared THEN acc.gas ELSE 0
           r == ExecL(ChildInit(vm, rest, i), start, acc.log, C) IN
       IF r.k # "ok" THEN [k |-> r.k, c |-> IF r.k = "err" THEN r.c ELSE "child out of gas", log |-> r.log]
       ELSE LET used == IF ChildGasShared THEN r.gas - acc.gas ELSE r.gas IN
            IF acc.gas + used > GasMax THEN [k |-> "err", c |-> "gas overflow", log |-> r.log]
            ELSE RunKids(vm, rest, i + 1, n,
                         [mem |-> acc.mem \o r.vm.mem, pc |-> Max(acc.pc, r.vm.pc),
                          gas |-> acc.gas + used, halt |-> acc.halt \/ r.vm.halt, log |-> r.log], C)

\* The Compute op on parent vm with gas g (already charged for COM itself).
\* Returns a run outcome whose vm is the parent after the join (not yet continued).
ComputeStep(vm, g, log, C) ==
  LET st == vm.st IN
  IF Len(st) < 1 THEN FailL(vm, g, "stack empty", log)
  ELSE LET n == st[Len(st)]
           rest == DropLast(st, 1) IN
  IF n < 1 THEN FailL(vm, g, "invalid breadth", log)
  ELSE IF Len(vm.pm) >= MaxDepth THEN FailL(vm, g, "depth reached", log)
  ELSE IF Len(rest) >= StackLimit THEN FailL(vm, g, "stack overflow", log)   \* pushing the index
  ELSE LET kids == RunKids(vm, rest, 0, n,
                           [mem |-> <<>>, pc |-> vm.pc, gas |-> IF ChildGasShared THEN g ELSE 0,
                            halt |-> vm.halt, log |-> log], C) IN
  IF kids.k # "ok" THEN FailL(vm, g, kids.c, kids.log)
  ELSE IF Len(vm.mem) + Len(kids.acc.mem) > MemLimit THEN FailL(vm, g, "memory overflow", kids.acc.log)
  ELSE LET total == IF ChildGasShared THEN kids.acc.gas ELSE g + kids.acc.gas IN
       IF total > GasMax \/ total > C.limit THEN FailL(vm, g, "out of gas at the join", kids.acc.log)
       ELSE DoneL([vm EXCEPT !.st = rest, !.mem = vm.mem \o kids.acc.mem,
                             !.pc = kids.acc.pc, !.halt = kids.acc.halt], total, kids.acc.log)

ExecL(vm, gas, log, C) ==
  IF vm.pc < 0 \/ vm.pc >= Len(C.prog) THEN DoneL(vm, gas, log)
  ELSE LET op == C.prog[vm.pc + 1]
           c == C.cost[op.n] IN
  IF ~ChargeOk(gas, c, C.limit) THEN OutOfGasL(vm, gas, log)
  ELSE LET g == gas + c IN
  IF op.n = "COM"
  THEN LET r == ComputeStep(vm, g, log, C) IN
       IF r.k # "ok" THEN r
       ELSE IF r.vm.halt THEN r ELSE ExecL(r.vm, r.gas, r.log, C)
  ELSE LET r == StepWithState(op, vm, C) IN
       IF r.k = "err" THEN FailL(vm, g, r.c, log)
       ELSE LET log2 == IF r.req.view = "none" THEN log ELSE Append(log, r.req) IN
            CASE r.ctl.t = "next" -> ExecL([r.vm EXCEPT !.pc = vm.pc + 1], g, log2, C)
              [] r.ctl.t = "pc"   -> ExecL([r.vm EXCEPT !.pc = r.ctl.n], g, log2, C)
              [] r.ctl.t = "halt" -> DoneL(r.vm, g, log2)
              [] r.ctl.t = "come" -> DoneL([r.vm EXCEPT !.pc = vm.pc + 1], g, log2)

Exec(vm, gas, C) == ExecL(vm, gas, <<>>, C)

\* Evaluation (vm.rs Vm::eval): the top of the final stack must be 0 or 1.
Eval(vm, gas, C) ==
  LET r == Exec(vm, gas, C) IN
  IF r.k # "ok" THEN [k |-> r.k]
  ELSE IF r.vm.st = <<>> \/ ~IsBoolW(r.vm.st[Len(r.vm.st)]) THEN [k |-> "invalid"]
  ELSE [k |-> "ok", b |-> r.vm.st[Len(r.vm.st)] = 1]

=============================================================================
