SPECIFICATION TraceSpec
CONSTANTS
  MaxSolutions = 100
  MaxPredicateData = 100
  MaxValueSize = 10000
  MaxKeySize = 1000
  MaxStateMutations = 1000
  MaxNodes = 1000
  MaxEdges = 1000
  MaxPredicates = 100
POSTCONDITION TraceAccepted
CHECK_DEADLOCK FALSE
