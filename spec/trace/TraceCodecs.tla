----------------------------- MODULE TraceCodecs -----------------------------
(***************************************************************************)
(* Validates what the real encoders / decoders of crates/types answered    *)
(* (harness/src/drivers/codecs.rs, modes wire and serde) against           *)
(* Encodings.tla with 32-byte addresses and the real limits.               *)
(***************************************************************************)
EXTENDS Encodings, Json, IOUtils, TLC

WMaxC == 536870911           \* the compressed word range of the trace (phi)
Rec == ndJsonDeserialize(IOEnv.TRACE)
VARIABLE l
Has(e, f) == f \in DOMAIN e

P(e) == [nodes |-> e.nodes, edges |-> e.edges]

PredOK(e) ==
  LET p == P(e)
      enc == EncodePredicate(p) IN
  /\ e.enc_ok = enc.ok
  /\ enc.ok => /\ e.enc = enc.bytes
               /\ e.size = Len(enc.bytes)                       \* reported size = actual length
               /\ e.dec_same
               /\ DecodePredicate(e.enc, 32) = [ok |-> TRUE, p |-> p]
  /\ e.size = EncodedSize(p, 32)
  /\ Len(e.ne) = Len(p.nodes) + 1
  /\ \A i \in 1..Len(e.ne) : LET r == NodeEdges(p, i - 1) IN
                             e.ne[i].some = r.some /\ (r.some => e.ne[i].es = r.es)

PredBigOK(e) ==
  /\ e.enc_ok = (e.nn <= MaxNodesEnc /\ e.ne <= MaxEdgesEnc)
  /\ e.size = e.nn * 34 + e.ne * 2 + 4
  /\ e.enc_ok => e.enc_len = e.size /\ e.dec_same /\ e.addr_nonzero
  /\ ~e.enc_ok => e.addr_zero

DecPOK(e) ==
  /\ ~Has(e, "panic")
  /\ LET d == DecodePredicate(e.b, 32) IN
     e.ok = d.ok /\ (d.ok => P(e.p) = d.p)

MutsOK(e) ==
  /\ e.enc = EncodeMutations(e.ms)
  /\ e.dec_same /\ e.singles_ok
  /\ DecodeMutations(e.enc) = [ok |-> TRUE, ms |-> e.ms]

DecMOK(e) ==
  LET one == DecodeMutation(e.ws)
      many == DecodeMutations(e.ws) IN
  /\ ~Has(e.one, "panic") /\ ~Has(e.many, "panic")
  /\ e.one.ok = one.ok /\ (one.ok => e.one.m = one.m) /\ (~one.ok => e.one.err = one.err)
  /\ e.many.ok = many.ok /\ (many.ok => e.many.ms = many.ms) /\ (~many.ok => e.many.err = many.err)

RECURSIVE LimbBytes(_)
LimbBytes(ls) == IF ls = <<>> THEN <<>> ELSE U16BE(Head(ls)) \o LimbBytes(Tail(ls))
RECURSIVE WordsBytes(_)
WordsBytes(ws) == IF ws = <<>> THEN <<>> ELSE LimbBytes(Head(ws)) \o WordsBytes(Tail(ws))
ConvOK(e) ==
  /\ e.b8 = LimbBytes(e.limbs[1])                          \* big-endian
  /\ e.b32 = WordsBytes(SubSeq(e.limbs, 1, 4))
  /\ e.b64 = WordsBytes(e.limbs)
  /\ e.w_back /\ e.w4_back /\ e.w8_back /\ e.hex_back /\ e.bytes_back
  /\ e.hex_len = 128

SerdeOK(e) ==
  /\ e.Solution /\ e.Predicate /\ e.Program /\ e.SolutionSet /\ e.Contract /\ e.SignedContract
  /\ e.Signature /\ e.ContentAddress /\ e.PredicateAddress /\ e.Mutation
  /\ e.text /\ e.forms /\ e.legacy
  /\ e.pc = SerSolution(e.s, WMaxC)

LineOK(e) ==
  CASE e.e = "pred" -> PredOK(e) [] e.e = "predbig" -> PredBigOK(e) [] e.e = "decp" -> DecPOK(e)
    [] e.e = "muts" -> MutsOK(e) [] e.e = "decm" -> DecMOK(e) [] e.e = "conv" -> ConvOK(e)
    [] e.e = "serde" -> SerdeOK(e)
    [] OTHER -> FALSE       \* e.g. a panic reported by the harness is never explained

TraceInit == l = 1
TraceNext == l <= Len(Rec) /\ LineOK(Rec[l]) /\ l' = l + 1
TraceSpec == TraceInit /\ [][TraceNext]_l
TraceAccepted ==
  LET d == TLCGet("stats").diameter IN
  IF d - 1 = Len(Rec) THEN TRUE
  ELSE Print(<<"TRACE_REJECTED_AT_LINE", d, "of", Len(Rec)>>, FALSE)
=============================================================================
