SPECIFICATION TraceSpec
CONSTANTS
  WordMax = 536870911
  ShiftBits = 64
  StackLimit = 4096
  MemLimit = 10240
  RepLimit = 4096
  MaxDepth = 1
  GasMax = 1073741823
  ChildGasShared = FALSE
  Answer <- StateAnswer
POSTCONDITION TraceAccepted
CHECK_DEADLOCK FALSE
