--------------------------- MODULE TraceValidators ---------------------------
(***************************************************************************)
(* Validates the verdicts of the real validators on inputs at / below /    *)
(* above every limit (harness/src/drivers/validators.rs) against           *)
(* Validators.tla with the real constants.                                 *)
(***************************************************************************)
EXTENDS Validators, Json, IOUtils, TLC

Rec == ndJsonDeserialize(IOEnv.TRACE)
VARIABLE l
Has(e, f) == f \in DOMAIN e

SetOK(e) ==
  /\ e.ok = CheckSet(e.sols).ok
  /\ e.ok = DocValidSet(e.sols)
  /\ e.solutions_ok = CheckSolutions(e.sols).ok
  /\ e.mutations_ok = CheckSetStateMutations(e.sols).ok

ContractOK(e) ==
  /\ e.ok = CheckContract(e.ps).ok
  /\ e.ok = DocValidContract(e.ps)
  /\ \A i \in 1..Len(e.ps) : e.each[i] = CheckPredicate(e.ps[i]).ok
  /\ Has(e, "sig") => /\ Has(e, "signed_ok")            \* never a panic
                      /\ e.signed_ok = CheckSignedContract(e.ps, e.recoverable).ok

LineOK(e) == CASE e.e = "set" -> SetOK(e) [] e.e = "contract" -> ContractOK(e)
    [] OTHER -> FALSE       \* e.g. a panic reported by the harness is never explained

TraceInit == l = 1
TraceNext == l <= Len(Rec) /\ LineOK(Rec[l]) /\ l' = l + 1
TraceSpec == TraceInit /\ [][TraceNext]_l
TraceAccepted ==
  LET d == TLCGet("stats").diameter IN
  IF d - 1 = Len(Rec) THEN TRUE
  ELSE Print(<<"TRACE_REJECTED_AT_LINE", d, "of", Len(Rec)>>, FALSE)
=============================================================================
