------------------------------ MODULE TraceSign ------------------------------
(***************************************************************************)
(* Validates what real keys and the real sign / check crates did           *)
(* (harness/src/drivers/sign.rs) against Signing.tla: with the content     *)
(* unchanged (any predicate order) the signer's key is recovered and       *)
(* verification succeeds; after any change of content, signature or signer *)
(* the signer's key is NOT recovered; malformed input is an error, never a *)
(* panic; the word layouts are those of Crypto.tla.                        *)
(***************************************************************************)
EXTENDS Signing, Crypto, Json, IOUtils, TLC
Rec == ndJsonDeserialize(IOEnv.TRACE)
VARIABLE l

\* the symbolic model's answer for a case
Expected(e) ==
  IF e.same_content THEN RecoverContract(SignContract([preds |-> <<>>, salt |-> 0], "a"))        \* signer
  ELSE [k |-> "not_signer"]

CaseOK(e) ==
  /\ e.recovered # "panic"
  /\ IF e.same_content
     THEN e.recovered = "signer" /\ e.verify /\ (e.npred <= 100 => e.check_signed)
     ELSE e.recovered \in {"other", "error"}
  /\ ~e.recid_wellformed => (e.recovered = "error" /\ ~e.verify /\ ~e.check_signed)
  /\ e.verify = (e.recovered # "error")                 \* verification is successful recovery

EncOK(e) ==
  /\ e.key_words = KeyWords(e.key33)
  /\ e.key_bytes40 = Flat(e.key_words)
  /\ SubSeq(e.sig_words, 1, 8) = [i \in 1..8 |-> SubSeq(e.sig64, 8 * (i - 1) + 1, 8 * i)]
  /\ e.sig_words[9] = <<0, 0, 0, 0, 0, 0, 0, e.rid>>
  /\ e.sig_bytes72 = Flat(e.sig_words)
  /\ e.vm_recovers_signer /\ e.sign_hash_same /\ e.verify_message

RandomOK(e) == e.panics_or_disagreements = 0

LineOK(e) == CASE e.e = "case" -> CaseOK(e) [] e.e = "enc" -> EncOK(e) [] e.e = "random" -> RandomOK(e)
    [] OTHER -> FALSE       \* e.g. a panic reported by the harness is never explained
TraceInit == l = 1
TraceNext == l <= Len(Rec) /\ LineOK(Rec[l]) /\ l' = l + 1
TraceSpec == TraceInit /\ [][TraceNext]_l
TraceAccepted ==
  LET d == TLCGet("stats").diameter IN
  IF d - 1 = Len(Rec) THEN TRUE
  ELSE Print(<<"TRACE_REJECTED_AT_LINE", d, "of", Len(Rec)>>, FALSE)
=============================================================================
