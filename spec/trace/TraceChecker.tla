---------------------------- MODULE TraceChecker ----------------------------
(***************************************************************************)
(* Validates what the real two-pass checker did on a case                  *)
(* (harness/src/drivers/checker.rs) against Checker!TwoPass evaluated on   *)
(* the same case: verdict, failing solution / node indices, gas, the       *)
(* returned mutations per solution, and the multiset of marker reports     *)
(* (what every reporting leaf saw as its stack and memory).                *)
(***************************************************************************)
EXTENDS Checker, Json, IOUtils, TLC

Rec == ndJsonDeserialize(IOEnv.TRACE)
VARIABLE l

TAG == -99
RECURSIVE Flatten(_)
Flatten(ss) == IF ss = <<>> THEN <<>> ELSE Head(ss) \o Flatten(Tail(ss))

\* all state requests of the run, pass 1 then pass 2
AllReqs(r) ==
  IF r.k = "ok" THEN Flatten(r.log1) \o Flatten(r.log2)
  ELSE IF r.pass = 1 THEN Flatten(r.r.log)
  ELSE Flatten(r.log1) \o Flatten(r.r.log)

IsMark(q) == q.view = "pre" /\ q.n = 0 /\ q.key # <<>> /\ q.key[Len(q.key)] = TAG
Marks(r) == LET qs == SelectSeq(AllReqs(r), IsMark) IN [i \in 1..Len(qs) |-> qs[i].key]

SameBag(a, b) ==
  /\ Len(a) = Len(b)
  /\ \A i \in 1..Len(a) : Cardinality({j \in 1..Len(a) : a[j] = a[i]}) = Cardinality({j \in 1..Len(b) : b[j] = a[i]})

\* the declared mutations propose at most one value per contract and key (sizes are small here)
DeclUnique(case) ==
  LET D == UNION {{<<i, j>> : j \in 1..Len(case.sols[i].decl)} : i \in 1..Len(case.sols)} IN
  \A p, q \in D : (case.sols[p[1]].contract = case.sols[q[1]].contract
                    /\ case.sols[p[1]].decl[p[2]].key = case.sols[q[1]].decl[q[2]].key) => p = q

ChkOK(e) ==
  LET r == TwoPass(e.case)
      o == e.obs IN
  /\ CASE o.k = "ok" ->
            /\ r.k = "ok"
            /\ o.gas = r.gas
            /\ Len(o.muts) = Len(r.sols)
            /\ \A i \in 1..Len(o.muts) : o.muts[i] = r.sols[i].muts
            \* C16: for an input that passes set validation, the returned set still does
            /\ DeclUnique(e.case) => e.revalid
       [] o.k = "failed" ->
            IF r.k = "mut" THEN o.who = <<[s |-> r.r.s, kind |-> "mut", nodes |-> <<>>]>>
            ELSE r.k = "failed" /\ o.who = r.r.who
       [] OTHER -> FALSE          \* panics and unexpected error kinds are never explained
  /\ SameBag(e.marks, Marks(r))
  \* C04 / C16: set validation accepts only sets that propose one value per contract and key
  /\ e.accepted => DeclUnique(e.case)

TraceInit == l = 1
TraceNext == l <= Len(Rec) /\ ChkOK(Rec[l]) /\ l' = l + 1
TraceSpec == TraceInit /\ [][TraceNext]_l

TraceAccepted ==
  LET d == TLCGet("stats").diameter IN
  IF d - 1 = Len(Rec) THEN TRUE
  ELSE Print(<<"TRACE_REJECTED_AT_LINE", d, "of", Len(Rec)>>, FALSE)
=============================================================================
