SPECIFICATION TraceSpec
INVARIANT NoLostUpdate
POSTCONDITION TraceAccepted
CHECK_DEADLOCK FALSE
