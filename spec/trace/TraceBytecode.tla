---------------------------- MODULE TraceBytecode ----------------------------
(***************************************************************************)
(* Validates what the real crates say about byte strings, op sequences,    *)
(* opcode bytes and effect queries (harness/src/drivers/bytecode.rs)       *)
(* against Bytecode.tla instantiated with the table generated from         *)
(* asm.yml (which must equal the pinned table).  Each line is checked on   *)
(* its own.                                                                *)
(***************************************************************************)
EXTENDS Integers, Sequences, FiniteSets, TLC, Json, IOUtils, OpTablePinned, OpTableGen

ASSUME TableDidNotDrift == GenTable = PinnedTable
Table == GenTable
INSTANCE Bytecode

Rec == ndJsonDeserialize(IOEnv.TRACE)
VARIABLE l
Has(e, f) == f \in DOMAIN e

EffectOrder == <<"KeyRange", "KeyRangeExtern", "ThisAddress", "ThisContractAddress", "PostKeyRange", "PostKeyRangeExtern">>
RECURSIVE Pow2(_)
Pow2(n) == IF n = 0 THEN 1 ELSE 2 * Pow2(n - 1)
MaskSet(m) == {EffectOrder[i] : i \in {i \in 1..6 : (m \div Pow2(i - 1)) % 2 = 1}}
SeqSet(s) == {s[i] : i \in 1..Len(s)}

RECURSIVE Offsets(_, _)
Offsets(ops, at) == IF ops = <<>> THEN <<>> ELSE <<at>> \o Offsets(Tail(ops), at + Len(Ser1(Head(ops))))

BytesOK(e) ==
  LET p == Parse(e.b)
      m == Map(e.b) IN
  /\ e.parse.ok = p.ok
  /\ e.parse.ops = p.ops
  /\ ~p.ok => /\ e.parse.err = p.err
              /\ p.err = "InvalidOpcode" => e.parse.byte = p.byte
  /\ e.reser = Serialise(p.ops)
  /\ p.ok => e.reser = e.b                       \* unambiguous
  /\ e.owned_eq_borrowed
  /\ e.map.ok = m.ok
  /\ ~m.ok => e.map.err = m.err
  /\ m.ok => /\ e.map.idx = m.idx
             /\ e.mops = p.ops
             /\ e.opat = p.ops
             /\ e.opat_n = Len(p.ops)
             /\ e.opat_end_none
             /\ e.from1 = (IF p.ops = <<>> THEN <<>> ELSE Tail(p.ops))

OpsOK(e) ==
  /\ e.ser = Serialise(e.ops)
  /\ \A i \in 1..Len(e.ops) : e.per_op[i] = Ser1(e.ops[i]) /\ e.opcodes[i] = RowByShort(e.ops[i].n).opcode
  /\ e.fi_bytes = e.ser
  /\ e.fi_idx = Offsets(e.ops, 0)
  /\ e.back_ok
  /\ Parse(e.ser) = [ok |-> TRUE, ops |-> e.ops, idx |-> e.fi_idx]

OpcodeOK(e) ==
  /\ e.valid = IsOpcode(e.byte)
  /\ e.valid => /\ e.back = e.byte
                /\ e.dbg = RowOf(e.byte).group \o "(" \o RowOf(e.byte).name \o ")"

ScanOK(e) ==
  /\ \A m \in 0..63 : e.anys[m + 1] = ScanAny(e.b, MaskSet(m))
  /\ Has(e, "ops") =>
       /\ Parse(e.b).ok /\ Parse(e.b).ops = e.ops
       /\ SeqSet(e.eff) = Analyze(e.ops)
       \* the byte level query is exact with respect to the parsed program
       /\ \A m \in 0..63 : e.anys[m + 1] = (Analyze(e.ops) \cap MaskSet(m) # {})

LineOK(e) ==
  CASE e.e = "bytes"  -> BytesOK(e)
    [] e.e = "ops"    -> OpsOK(e)
    [] e.e = "opcode" -> OpcodeOK(e)
    [] e.e = "scan"   -> ScanOK(e)
    [] OTHER -> FALSE       \* e.g. a panic reported by the harness is never explained

TraceInit == l = 1
TraceNext == l <= Len(Rec) /\ LineOK(Rec[l]) /\ l' = l + 1
TraceSpec == TraceInit /\ [][TraceNext]_l

TraceAccepted ==
  LET d == TLCGet("stats").diameter IN
  IF d - 1 = Len(Rec) THEN TRUE
  ELSE Print(<<"TRACE_REJECTED_AT_LINE", d, "of", Len(Rec)>>, FALSE)
=============================================================================
