------------------------------- MODULE TraceVm -------------------------------
(***************************************************************************)
(* Trace specification: validates NDJSON traces recorded from the real VM  *)
(* (through the essential_vm::verif observer) against VmOps / VmExec.      *)
(*                                                                         *)
(* Every line is one event; each event is explained by exactly one action  *)
(* that reuses the operators of the design modules (StepOp, ChargeOk,      *)
(* ChildInit, ...).  The trace is accepted iff all lines are consumed      *)
(* (POSTCONDITION TraceAccepted) and the invariants hold in every state.   *)
(*                                                                         *)
(* Events (harness/src/run.rs):                                            *)
(*   init   a new run: program, initial machine, environment, gas limit    *)
(*   s      one executed operation of the current VM (ok or failed)        *)
(*   fork   the current VM charged a Compute                               *)
(*   cinit  child i starts      cexit  child returned Ok                   *)
(*   coog   child was refused its next op for lack of gas                  *)
(*   join   the parent's Compute finished (ok or failed)                   *)
(*   exit / oog / err   how the top-level run ended                        *)
(*   trunc  the harness cut the run short (phi guard), nothing to check    *)
(***************************************************************************)
EXTENDS VmExec, ErrKinds, Json, IOUtils, TLC

Rec == ndJsonDeserialize(IOEnv.TRACE)

VARIABLES l,      \* next line to consume
          mode,   \* "idle" | "run" | "done" | "failed" | "forked" | "kid" | "kiddone" | "exited"
          run,    \* the current run's constants
          vm,     \* machine currently being stepped (top-level VM or a child)
          gas,    \* gas spent by that machine
          par,    \* while inside a Compute: the suspended parent and the join accumulator
          errc    \* <<op name, error class of the specification>> of the step that failed the top-level run

vars == <<l, mode, run, vm, gas, par, errc>>

NoRun == [plen |-> 0]
NoVm  == [pc |-> 0, st |-> <<>>, mem |-> <<>>, pm |-> <<>>, rep |-> <<>>, halt |-> FALSE]
NoPar == [on |-> FALSE]

TraceInit ==
  /\ l = 1 /\ mode = "idle" /\ run = NoRun /\ vm = NoVm /\ gas = 0 /\ par = NoPar /\ errc = <<>>

-----------------------------------------------------------------------------
Has(e, f) == f \in DOMAIN e
Clamp(pc) == IF pc > run.plen THEN run.plen ELSE pc
VmDone(v) == v.pc >= run.plen

CostOf(n) == LET c == run.cost IN
             IF \E i \in 1..Len(c.k) : c.k[i] = n
             THEN c.v[CHOOSE i \in 1..Len(c.k) : c.k[i] = n] ELSE c.d

\* The part of a machine state an event reports
ProjOK(e, v) ==
  /\ e.sl = Len(v.st)
  /\ e.ml = Len(v.mem)
  /\ IF Has(e, "st") THEN e.st = v.st
     ELSE Len(e.top) <= Len(v.st) /\ e.top = LastN(v.st, Len(e.top))
  /\ IF Has(e, "mem") THEN e.mem = v.mem
     ELSE Len(e.mtop) <= Len(v.mem) /\ e.mtop = LastN(v.mem, Len(e.mtop))
  /\ e.rl = Len(v.rep)
  /\ IF Has(e, "rep") THEN e.rep = v.rep
     ELSE Len(e.rtop) <= Len(v.rep) /\ e.rtop = LastN(v.rep, Len(e.rtop))
  /\ e.halt = v.halt

\* Environment for one op: the recorded answer of the state / crypto primitive
EnvFor(e) ==
  [contract |-> run.env.contract, predicate |-> run.env.predicate, pdata |-> run.env.pdata,
   pex |-> SeqToSet(run.env.pex),
   resp |-> IF Has(e, "rd") THEN [ok |-> e.rd.ok, vals |-> e.rd.vals] ELSE EmptyResp,
   orc |-> IF Has(e, "orc") THEN e.orc ELSE <<>>]

ReqOK(e, r) ==
  IF r.req.view = "none" THEN ~Has(e, "rd")
  ELSE /\ Has(e, "rd")
       /\ e.rd.view = r.req.view /\ e.rd.contract = r.req.contract
       /\ e.rd.key = r.req.key /\ e.rd.n = r.req.n

\* pc update of the exec loop
AfterCtl(v, r) ==
  CASE r.ctl.t = "next" -> [r.vm EXCEPT !.pc = v.pc + 1]
    [] r.ctl.t = "pc"   -> [r.vm EXCEPT !.pc = r.ctl.n]
    [] r.ctl.t = "halt" -> r.vm
    [] r.ctl.t = "come" -> [r.vm EXCEPT !.pc = v.pc + 1]

Stops(r) == r.ctl.t \in {"halt", "come"}

-----------------------------------------------------------------------------
NewRun(e) ==
  /\ e.e = "init"
  /\ mode' = "run"
  /\ run' = [plen |-> e.plen, prog |-> e.prog, env |-> e.env, limit |-> e.limit, cost |-> e.cost]
  /\ vm' = e.vm
  /\ gas' = 0
  /\ par' = NoPar
  /\ errc' = <<>>

\* Preconditions of compute.rs before any child is spawned
ForkOKvm(v) == /\ Len(v.st) >= 1
               /\ v.st[Len(v.st)] >= 1
               /\ Len(v.pm) < MaxDepth
               /\ Len(v.st) - 1 < StackLimit

\* One operation of the current machine
StepEv(e) ==
  /\ e.e = "s"
  /\ mode \in {"run", "kid"}
  /\ ~VmDone(vm)
  /\ e.pc = vm.pc
  /\ LET op == run.prog[vm.pc + 1]
         c == CostOf(op.n) IN
     /\ e.op = op
     /\ ChargeOk(gas, c, run.limit)
     /\ e.g = gas + c
     /\ gas' = gas + c
     \* a Compute is reported as a plain step only where it cannot fork (inside a child)
     /\ LET r == IF op.n = "COM"
                 THEN (IF ForkOKvm(vm) THEN [k |-> "fork"] ELSE E("compute"))
                 ELSE StepOp(op, vm, EnvFor(e)) IN
        IF e.ok
        THEN /\ r.k = "ok"
             /\ ReqOK(e, r)
             /\ ProjOK(e, r.vm)
             /\ vm' = AfterCtl(vm, r)
             /\ mode' = IF Stops(r) THEN (IF mode = "run" THEN "done" ELSE "kiddone") ELSE mode
             /\ par' = par
             /\ errc' = errc
        ELSE /\ r.k = "err"
             /\ vm' = vm
             /\ IF mode = "run" THEN mode' = "failed" /\ par' = par /\ errc' = <<op.n, r.c>>
                ELSE mode' = "forked" /\ par' = [par EXCEPT !.failed = TRUE] /\ errc' = errc
  /\ UNCHANGED run

\* The current (top-level) machine charges a Compute and suspends
ForkEv(e) ==
  /\ e.e = "fork"
  /\ mode = "run"
  /\ ~VmDone(vm)
  /\ e.pc = vm.pc
  /\ run.prog[vm.pc + 1].n = "COM"
  /\ LET c == CostOf("COM") IN
     /\ ChargeOk(gas, c, run.limit)
     /\ e.g = gas + c
     /\ gas' = gas + c
  /\ par' = [on |-> TRUE, vm |-> vm, g |-> gas + CostOf("COM"), next |-> 0, cur |-> 0, skipped |-> FALSE, failed |-> FALSE, gasov |-> FALSE,
             acc |-> [mem |-> <<>>, pc |-> vm.pc, gas |-> 0, halt |-> vm.halt]]
  /\ mode' = "forked"
  /\ UNCHANGED <<run, vm, errc>>

Breadth(p)  == p.vm.st[Len(p.vm.st)]
ForkOK(p)   == ForkOKvm(p.vm)

ChildStart(e) ==
  /\ e.e = "cinit"
  /\ mode = "forked"
  /\ ForkOK(par)
  /\ e.i >= par.next /\ e.i < Breadth(par)
  /\ e.vm = ChildInit(par.vm, DropLast(par.vm.st, 1), e.i)
  /\ vm' = e.vm
  /\ gas' = 0                     \* as coded: every child starts from zero (finding F9)
  /\ par' = [par EXCEPT !.cur = e.i, !.skipped = par.skipped \/ e.i > par.next]
  /\ mode' = "kid"
  /\ UNCHANGED <<run, errc>>

ChildExit(e) ==
  /\ e.e = "cexit"
  /\ mode \in {"kid", "kiddone"}
  /\ mode = "kid" => VmDone(vm)
  /\ e.pc = Clamp(vm.pc)
  /\ e.g = gas
  /\ ProjOK(e, vm)
  /\ par' = [par EXCEPT !.next = par.cur + 1,
                        !.gasov = par.gasov \/ par.acc.gas + gas > GasMax,
                        !.acc = [mem |-> par.acc.mem \o vm.mem, pc |-> Max(par.acc.pc, vm.pc),
                                 gas |-> IF par.acc.gas + gas > GasMax THEN GasMax ELSE par.acc.gas + gas,
                                 halt |-> par.acc.halt \/ vm.halt]]
  /\ mode' = "forked"
  /\ UNCHANGED <<run, vm, gas, errc>>

ChildOutOfGas(e) ==
  /\ e.e = "coog"
  /\ mode = "kid"
  /\ ~VmDone(vm)
  /\ ~ChargeOk(gas, CostOf(run.prog[vm.pc + 1].n), run.limit)
  /\ par' = [par EXCEPT !.failed = TRUE]
  /\ mode' = "forked"
  /\ UNCHANGED <<run, vm, gas, errc>>

\* why compute.rs fails, in the order of its checks
JoinErr(p) ==
  IF Len(p.vm.st) < 1 THEN "stack empty"
  ELSE IF Breadth(p) < 1 THEN "breadth"
  ELSE IF Len(p.vm.pm) >= MaxDepth THEN "depth"
  ELSE IF p.failed THEN "child"                     \* a child failed or ran out of gas
  ELSE IF Len(p.vm.mem) + Len(p.acc.mem) > MemLimit THEN "memory overflow"
  ELSE "gas overflow"                               \* the children's gas does not sum

JoinEv(e) ==
  /\ e.e = "join"
  /\ mode = "forked"
  /\ LET p == par
         \* compute.rs: all children returned Ok, their memories fit, their gas sums without overflow
         allSeen == Len(p.vm.st) >= 1 /\ ~p.skipped /\ p.next = Breadth(p)
         kidsOK == /\ ForkOK(p)
                   /\ ~p.failed /\ ~p.gasov /\ allSeen
                   /\ Len(p.vm.mem) + Len(p.acc.mem) <= MemLimit
         \* a failing Compute needs a reason: a precondition, a child that was seen to fail, or
         \* - every child having been seen to succeed - memories or gas that do not add up
         whyFail == \/ ~ForkOK(p)
                    \/ p.failed
                    \/ allSeen /\ (p.gasov \/ Len(p.vm.mem) + Len(p.acc.mem) > MemLimit)
         \* vm.rs: the children's gas is then added with an overflow check and counts towards the limit
         gasOK == p.g + p.acc.gas <= GasMax /\ p.g + p.acc.gas <= run.limit
         after == [p.vm EXCEPT !.st = DropLast(p.vm.st, 1), !.mem = p.vm.mem \o p.acc.mem,
                               !.halt = p.acc.halt] IN
     IF e.ok
     THEN /\ kidsOK
          /\ e.g = p.g       \* the hook reports the parent's gas before the children's is added
          /\ ProjOK(e, after)
          /\ IF gasOK
             THEN /\ vm' = [after EXCEPT !.pc = p.acc.pc]
                  /\ gas' = p.g + p.acc.gas
                  /\ mode' = IF p.acc.halt THEN "done" ELSE "run"
             \* Open finding F9: each child was metered from zero against the full limit, so
             \* operations were executed although the total was already beyond the limit; the
             \* parent only notices when it adds the children's gas.
             ELSE /\ PrintT(<<"KNOWN_F9_AT_LINE", l>>)
                  /\ vm' = after
                  /\ gas' = p.g
                  /\ mode' = "joinoog"
     ELSE /\ whyFail = TRUE       \* (as an expression: TLC would otherwise explore each disjunct)
          /\ vm' = p.vm /\ gas' = p.g
          /\ mode' = "failed"
  /\ errc' = IF e.ok THEN errc ELSE <<"COM", JoinErr(par)>>
  /\ par' = NoPar
  /\ UNCHANGED run

\* How the top-level run ended
ExitEv(e) ==
  /\ e.e = "exit"
  /\ mode \in {"run", "done"}
  /\ mode = "run" => VmDone(vm)
  /\ e.pc = Clamp(vm.pc)
  /\ e.g = gas
  /\ ProjOK(e, vm)
  /\ e.pm = vm.pm
  /\ mode' = "exited"
  /\ UNCHANGED <<run, vm, gas, par, errc>>

\* Vm::eval: the boolean extracted from the final stack (C09)
EvalEv(e) ==
  /\ e.e = "eval"
  /\ mode = "exited"
  /\ LET top == IF vm.st = <<>> THEN -1 ELSE vm.st[Len(vm.st)] IN
     e.r = (IF vm.st # <<>> /\ top = 1 THEN "t" ELSE IF vm.st # <<>> /\ top = 0 THEN "f" ELSE "inv")
  /\ mode' = "idle"
  /\ UNCHANGED <<run, vm, gas, par, errc>>

OutOfGasEv(e) ==
  /\ e.e = "oog"
  /\ \/ /\ mode = "run"
        /\ ~VmDone(vm)
        /\ ~ChargeOk(gas, CostOf(run.prog[vm.pc + 1].n), run.limit)
     \/ mode = "joinoog"          \* refused when adding the children's gas (at the Compute's pc)
  /\ e.pc = vm.pc
  /\ ProjOK(e, vm)               \* nothing (else) happened
  /\ mode' = "idle"
  /\ UNCHANGED <<run, vm, gas, par, errc>>

ErrEv(e) ==
  /\ e.e = "err"
  /\ mode = "failed"
  /\ e.pc = Clamp(vm.pc)
  /\ KindOK(errc[1], errc[2], e.class)          \* the kind of typed error (ErrKinds.tla)
  /\ mode' = "idle"
  /\ UNCHANGED <<run, vm, gas, par, errc>>

TruncEv(e) ==
  /\ e.e = "trunc"
  /\ mode' = "idle"
  /\ UNCHANGED <<run, vm, gas, par, errc>>

TraceNext ==
  /\ l <= Len(Rec)
  /\ l' = l + 1
  /\ LET e == Rec[l] IN
     \/ NewRun(e) \/ StepEv(e) \/ ForkEv(e) \/ ChildStart(e) \/ ChildExit(e)
     \/ ChildOutOfGas(e) \/ JoinEv(e) \/ ExitEv(e) \/ EvalEv(e) \/ OutOfGasEv(e) \/ ErrEv(e) \/ TruncEv(e)

TraceSpec == TraceInit /\ [][TraceNext]_vars

-----------------------------------------------------------------------------
(* Invariants evaluated in every state of every trace *)
Bounds == WithinBounds(vm) /\ (par.on => WithinBounds(par.vm))

\* C07: the gas spent (by the machine being stepped, and by a parent including its joined
\* children) never exceeds the limit.
GasWithinLimit == mode # "idle" => gas <= run.limit

TraceAccepted ==
  LET d == TLCGet("stats").diameter IN
  IF d - 1 = Len(Rec) THEN TRUE
  ELSE Print(<<"TRACE_REJECTED_AT_LINE", d, "of", Len(Rec)>>, FALSE)

=============================================================================
