------------------------------ MODULE TraceLock ------------------------------
(***************************************************************************)
(* Validates event logs of the real StdLock (harness/src/drivers/lock.rs)  *)
(* against Lock.tla: the events of a closure carry sequence numbers taken  *)
(* inside the closure, i.e. under the lock; the log is sorted by them.     *)
(***************************************************************************)
EXTENDS Integers, Sequences, FiniteSets, Json, IOUtils, TLC

Rec == ndJsonDeserialize(IOEnv.TRACE)

VARIABLES l, holder, val, tmp, pc, last, closures
vars == <<l, holder, val, tmp, pc, last, closures>>
None == -1

TraceInit == l = 1 /\ holder = <<>> /\ val = <<>> /\ tmp = <<>> /\ pc = <<>> /\ last = <<>> /\ closures = 0

StartEv(e) ==
  /\ e.e = "start"
  /\ holder' = [k \in 0..(e.locks - 1) |-> None]
  /\ val' = [k \in 0..(e.locks - 1) |-> 0]
  /\ tmp' = [t \in 0..(e.threads - 1) |-> 0]
  /\ pc' = [t \in 0..(e.threads - 1) |-> "idle"]
  /\ last' = [t \in 0..(e.threads - 1) |-> 0]
  /\ closures' = 0

\* Lock!Acquire: only while nobody holds the lock
EnterEv(e) ==
  /\ e.e = "enter" /\ pc[e.t] = "idle" /\ holder[e.k] = None
  /\ holder' = [holder EXCEPT ![e.k] = e.t] /\ pc' = [pc EXCEPT ![e.t] = "read"]
  /\ UNCHANGED <<val, tmp, last, closures>>
\* Lock!Read: the closure sees the effects of all closures completed before it
ReadEv(e) ==
  /\ e.e = "read" /\ pc[e.t] = "read" /\ holder[e.k] = e.t /\ e.v = val[e.k]
  /\ tmp' = [tmp EXCEPT ![e.t] = e.v] /\ pc' = [pc EXCEPT ![e.t] = "write"]
  /\ UNCHANGED <<holder, val, last, closures>>
WriteEv(e) ==
  /\ e.e = "write" /\ pc[e.t] = "write" /\ holder[e.k] = e.t /\ e.v = tmp[e.t] + 1
  /\ val' = [val EXCEPT ![e.k] = e.v] /\ pc' = [pc EXCEPT ![e.t] = "exit"]
  /\ UNCHANGED <<holder, tmp, last, closures>>
ExitEv(e) ==
  /\ e.e = "exit" /\ pc[e.t] = "exit" /\ holder[e.k] = e.t
  /\ holder' = [holder EXCEPT ![e.k] = None] /\ pc' = [pc EXCEPT ![e.t] = "ret"]
  /\ last' = [last EXCEPT ![e.t] = tmp[e.t] + 1] /\ closures' = closures + 1
  /\ UNCHANGED <<val, tmp>>
\* apply returns its closure's value
ReturnEv(e) ==
  /\ e.e = "return" /\ pc[e.t] = "ret" /\ e.v = last[e.t]
  /\ pc' = [pc EXCEPT ![e.t] = "idle"]
  /\ UNCHANGED <<holder, val, tmp, last, closures>>
\* every thread came back, nothing was lost
EndEv(e) ==
  /\ e.e = "end" /\ e.joined
  /\ \A t \in DOMAIN pc : pc[t] = "idle"
  /\ closures = e.total
  /\ \A k \in DOMAIN val : e.finals[k + 1] = val[k]
  /\ UNCHANGED <<holder, val, tmp, pc, last, closures>>

\* Non-reentrant use of two locks by one thread (a closure on lock 0 applies a closure on lock 1, always
\* in this order): every call returned its closure's value, every thread came back, and both locks
\* count every call - the sequential meaning of `threads * iters` nested read-modify-writes.
NestedEv(e) ==
  /\ e.e = "nested" /\ e.joined /\ e.bad = 0
  /\ e.a = e.threads * e.iters /\ e.b = e.threads * e.iters
  /\ UNCHANGED <<holder, val, tmp, pc, last, closures>>

TraceNext ==
  /\ l <= Len(Rec) /\ l' = l + 1
  /\ LET e == Rec[l] IN StartEv(e) \/ EnterEv(e) \/ ReadEv(e) \/ WriteEv(e) \/ ExitEv(e) \/ ReturnEv(e) \/ EndEv(e)
                        \/ NestedEv(e)
TraceSpec == TraceInit /\ [][TraceNext]_vars

\* Lock!MutualExclusion / NoLostUpdate on every state of the trace
SumVals == LET RECURSIVE S(_)
               S(K) == IF K = {} THEN 0 ELSE LET k == CHOOSE k \in K : TRUE IN val[k] + S(K \ {k}) IN S(DOMAIN val)
NoLostUpdate == closures <= SumVals /\ SumVals <= closures + Cardinality({t \in DOMAIN pc : pc[t] = "exit"})

TraceAccepted ==
  LET d == TLCGet("stats").diameter IN
  IF d - 1 = Len(Rec) THEN TRUE
  ELSE Print(<<"TRACE_REJECTED_AT_LINE", d, "of", Len(Rec)>>, FALSE)
=============================================================================
