------------------------------- MODULE Signing -------------------------------
(***************************************************************************)
(* Contract signatures (crates/sign): a contract is signed over its        *)
(* content address, which is H(sorted predicate addresses ++ salt)         *)
(* (Encodings / C17), i.e. a function of the MULTISET of predicates and    *)
(* the salt.  ECDSA is idealised symbolically (the standard assumption,    *)
(* trusted, not decided here):                                             *)
(*   Sign(sk, d)    = [sk |-> sk, d |-> d, ok |-> TRUE]                    *)
(*   Recover(s, d)  = Pk(s.sk) if s is well formed and s.d = d;            *)
(*                    some OTHER key if well formed and s.d # d;           *)
(*                    an error if s is malformed.                          *)
(* Digests are abstract: the digest of a contract IS its (bag of           *)
(* predicates, salt) - injectivity of the real pre-image is C17.           *)
(***************************************************************************)
EXTENDS Integers, Sequences, FiniteSets

Bag(s) == [x \in {s[i] : i \in 1..Len(s)} |-> Cardinality({i \in 1..Len(s) : s[i] = x})]
Digest(contract) == [preds |-> Bag(contract.preds), salt |-> contract.salt]

Pk(sk) == <<"pk", sk>>
Sign(sk, d) == [sk |-> sk, d |-> d, ok |-> TRUE]
Malformed == [sk |-> "none", d |-> "none", ok |-> FALSE]
Recover(sig, d) ==
  IF ~sig.ok THEN [k |-> "error"]
  ELSE IF sig.d = d THEN [k |-> "key", key |-> Pk(sig.sk)]
  ELSE [k |-> "key", key |-> <<"other", sig.sk, d>>]      \* a key, but not the signer's

SignContract(contract, sk) == [contract |-> contract, sig |-> Sign(sk, Digest(contract))]
RecoverContract(signed) == Recover(signed.sig, Digest(signed.contract))
VerifyContract(signed) == RecoverContract(signed).k = "key"      \* verification = successful recovery
=============================================================================
