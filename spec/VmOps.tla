------------------------------- MODULE VmOps -------------------------------
(***************************************************************************)
(* One operator per VM operation.  Mirrors the dispatch of                 *)
(* crates/vm/src/sync.rs (step_op) and the helpers in stack.rs, memory.rs, *)
(* pred.rs, sets.rs, alu.rs, access.rs, crypto.rs, repeat.rs,              *)
(* total_control_flow.rs and state_read.rs: operands are popped in the     *)
(* order the code pops them, and every check the code makes is a guard.    *)
(*                                                                         *)
(* Machine state  vm == [pc, st, mem, pm, rep, halt]                       *)
(*   st   stack, a sequence of words, top = last                           *)
(*   mem  memory, a sequence of words                                      *)
(*   pm   sequence of parent memories (its length is the compute depth)    *)
(*   rep  repeat stack, records [c, up, lim, ret]                          *)
(* Operation      op == [n |-> short name] (+ w for PUSH)                  *)
(* Environment    env == [contract, predicate  (4 words each),             *)
(*                        pdata  (sequence of slots),                      *)
(*                        pex    (set of 4-word predicate-data hashes),    *)
(*                        resp   (answer of the state for a key range),    *)
(*                        orc    (answer of the crypto primitive)]         *)
(*                                                                         *)
(* StepOp(op, vm, env) is [k |-> "ok", vm, ctl, req] or [k |-> "err", c].  *)
(* The state after a failing operation is deliberately not specified.      *)
(***************************************************************************)
EXTENDS Words, FiniteSets

CONSTANTS StackLimit,   \* 4096
          MemLimit,     \* 10240
          RepLimit,     \* 4096 (repeat.rs uses Stack::SIZE_LIMIT)
          MaxDepth      \* 1

-----------------------------------------------------------------------------
(* Sequence helpers *)
Take(s, n)     == SubSeq(s, 1, n)
LastN(s, n)    == SubSeq(s, Len(s) - n + 1, Len(s))
DropLast(s, n) == SubSeq(s, 1, Len(s) - n)
Zeros(n)       == [i \in 1..n |-> 0]
SetAt(s, i, v) == [s EXCEPT ![i] = v]
\* replace s[a+1 .. a+Len(ws)] (0-based address a) by ws
Splice(s, a, ws) == [i \in 1..Len(s) |-> IF i > a /\ i <= a + Len(ws) THEN ws[i - a] ELSE s[i]]
SeqToSet(s)    == {s[i] : i \in 1..Len(s)}

RECURSIVE SumLens(_)
SumLens(vals) == IF vals = <<>> THEN 0 ELSE Len(Head(vals)) + SumLens(Tail(vals))

-----------------------------------------------------------------------------
(* Results *)
NoReq   == [view |-> "none"]
CNext   == [t |-> "next"]
CHalt   == [t |-> "halt"]
CCome   == [t |-> "come"]
CPc(n)  == [t |-> "pc", n |-> n]
R(vm, ctl)       == [k |-> "ok", vm |-> vm, ctl |-> ctl, req |-> NoReq]
RQ(vm, ctl, req) == [k |-> "ok", vm |-> vm, ctl |-> ctl, req |-> req]
E(c)             == [k |-> "err", c |-> c]

\* lift a stack result (Ok(stack) / Err) to an op result that only changes the stack
OnStack(vm, r) == IF r.ok THEN R([vm EXCEPT !.st = r.v], CNext) ELSE E(r.c)

-----------------------------------------------------------------------------
(* Stack primitives (stack.rs) *)
PushS(st, w)   == IF Len(st) >= StackLimit THEN Err("stack overflow") ELSE Ok(Append(st, w))
\* Stack::extend pushes word by word, so it fails iff the total does not fit.
ExtendS(st, ws) == IF Len(st) + Len(ws) > StackLimit THEN Err("stack overflow") ELSE Ok(st \o ws)

Pop1Push1(st, F(_)) ==
  IF Len(st) < 1 THEN Err("stack empty")
  ELSE LET r == F(st[Len(st)]) IN
       IF r.ok THEN PushS(DropLast(st, 1), r.v) ELSE r

Pop2Push1(st, F(_, _)) ==
  IF Len(st) < 2 THEN Err("stack empty")
  ELSE LET r == F(st[Len(st) - 1], st[Len(st)]) IN
       IF r.ok THEN PushS(DropLast(st, 2), r.v) ELSE r

\* slice_split_len_words: the top word is a length n, followed (below) by n words
\* result: [ok, rest, words]
SplitLenWords(st) ==
  IF Len(st) < 1 THEN [ok |-> FALSE, c |-> "missing length"]
  ELSE LET n == st[Len(st)]
           rest == DropLast(st, 1) IN
       IF ~IsSize(n) THEN [ok |-> FALSE, c |-> "invalid length"]
       ELSE IF n > Len(rest) THEN [ok |-> FALSE, c |-> "length out of bounds"]
       ELSE [ok |-> TRUE, rest |-> DropLast(rest, n), words |-> LastN(rest, n)]

-----------------------------------------------------------------------------
(* Stack group *)
OpDup(st) ==
  IF Len(st) < 1 THEN Err("stack empty") ELSE ExtendS(DropLast(st, 1), <<st[Len(st)], st[Len(st)]>>)

OpSwap(st) ==
  IF Len(st) < 2 THEN Err("stack empty")
  ELSE ExtendS(DropLast(st, 2), <<st[Len(st)], st[Len(st) - 1]>>)

OpDupFrom(st) ==
  IF Len(st) < 1 THEN Err("stack empty")
  ELSE LET i == st[Len(st)]
           rest == DropLast(st, 1)
           ix == Len(rest) - i - 1 IN    \* 0-based index from the bottom
       IF ~IsSize(i) \/ ix < 0 THEN Err("index out of bounds")
       ELSE PushS(rest, rest[ix + 1])

OpSwapIndex(st) ==
  IF Len(st) < 1 THEN Err("stack empty")
  ELSE LET i == st[Len(st)]
           rest == DropLast(st, 1)
           top == Len(rest)
           ix == top - i IN              \* 1-based position of the other word
       IF top < 1 \/ ~IsSize(i) \/ ix < 1 THEN Err("index out of bounds")
       ELSE Ok([rest EXCEPT ![ix] = rest[top], ![top] = rest[ix]])

OpSelect(st) ==
  IF Len(st) < 3 THEN Err("stack empty")
  ELSE LET c == st[Len(st)]
           w0 == st[Len(st) - 2]
           w1 == st[Len(st) - 1] IN
       IF ~IsBoolW(c) THEN Err("invalid condition")
       ELSE PushS(DropLast(st, 3), IF c = 1 THEN w1 ELSE w0)

OpSelectRange(st) ==
  IF Len(st) < 1 THEN Err("stack empty")
  ELSE LET c == st[Len(st)] IN
  IF ~IsBoolW(c) THEN Err("invalid condition")
  ELSE IF Len(st) < 2 THEN Err("stack empty")
  ELSE LET n == st[Len(st) - 1]
           rest == DropLast(st, 2) IN
  IF ~IsSize(n) THEN Err("index out of bounds")
  ELSE IF n = 0 THEN Ok(rest)
  ELSE IF n > Len(rest) \/ 2 * n > Len(rest) THEN Err("index out of bounds")
  ELSE LET base == DropLast(rest, 2 * n)
           a == SubSeq(rest, Len(rest) - 2 * n + 1, Len(rest) - n)
           b == LastN(rest, n) IN
       Ok(base \o (IF c = 1 THEN b ELSE a))

OpReserve(st) ==
  IF Len(st) < 1 THEN Err("stack empty")
  ELSE LET n == st[Len(st)]
           rest == DropLast(st, 1) IN
       IF ~IsSize(n) THEN Err("index out of bounds")
       ELSE IF n > StackLimit \/ Len(rest) + n > StackLimit THEN Err("index out of bounds")
       ELSE PushS(rest \o Zeros(n), Len(rest))

OpLoadS(st) ==
  IF Len(st) < 1 THEN Err("stack empty")
  ELSE LET ix == st[Len(st)]
           rest == DropLast(st, 1) IN
       IF ~IsSize(ix) \/ ix >= Len(rest) THEN Err("index out of bounds")
       ELSE PushS(rest, rest[ix + 1])

OpStoreS(st) ==
  IF Len(st) < 2 THEN Err("stack empty")
  ELSE LET ix == st[Len(st)]
           w == st[Len(st) - 1]
           rest == DropLast(st, 2) IN
       IF ~IsSize(ix) \/ ix >= Len(rest) THEN Err("index out of bounds")
       ELSE Ok(SetAt(rest, ix + 1, w))

OpDrop(st) == LET s == SplitLenWords(st) IN IF s.ok THEN Ok(s.rest) ELSE Err(s.c)

\* Repeat / RepeatEnd (repeat.rs)
OpRepeat(vm) ==
  LET st == vm.st IN
  IF Len(st) < 2 THEN E("stack empty")
  ELSE LET n == st[Len(st) - 1]
           up == st[Len(st)] IN
       IF ~IsBoolW(up) THEN E("invalid count direction")
       ELSE IF Len(vm.rep) >= RepLimit THEN E("repeat overflow")
       ELSE LET slot == IF up = 1 THEN [c |-> 0, up |-> TRUE, lim |-> n, ret |-> vm.pc + 1]
                                  ELSE [c |-> n, up |-> FALSE, lim |-> 0, ret |-> vm.pc + 1] IN
            R([vm EXCEPT !.st = DropLast(st, 2), !.rep = Append(vm.rep, slot)], CNext)

\* limit.saturating_sub(1)
SatDec(w) == IF w = WordMin THEN WordMin ELSE w - 1

OpRepeatEnd(vm) ==
  IF vm.rep = <<>> THEN E("repeat empty")
  ELSE LET k == Len(vm.rep)
           s == vm.rep[k] IN
       IF s.up
       THEN IF s.c >= SatDec(s.lim)
            THEN R([vm EXCEPT !.rep = DropLast(vm.rep, 1)], CNext)
            ELSE R([vm EXCEPT !.rep[k].c = s.c + 1], CPc(s.ret))
       ELSE IF s.c <= 1
            THEN R([vm EXCEPT !.rep = DropLast(vm.rep, 1)], CNext)
            ELSE R([vm EXCEPT !.rep[k].c = s.c - 1], CPc(s.ret))

-----------------------------------------------------------------------------
(* Pred group *)
CmpEq(a, b)  == Ok(B2W(a = b))
CmpGt(a, b)  == Ok(B2W(a > b))
CmpLt(a, b)  == Ok(B2W(a < b))
CmpGte(a, b) == Ok(B2W(a >= b))
CmpLte(a, b) == Ok(B2W(a <= b))
LogAnd(a, b) == Ok(B2W(a # 0 /\ b # 0))
LogOr(a, b)  == Ok(B2W(a # 0 \/ b # 0))
LogNot(a)    == Ok(B2W(a = 0))
BAndW(a, b)  == Ok(BitAnd(a, b))
BOrW(a, b)   == Ok(BitOr(a, b))

OpEqRange(st) ==
  IF Len(st) < 1 THEN Err("stack empty")
  ELSE LET n == st[Len(st)]
           rest == DropLast(st, 1) IN
       IF n = 0 THEN PushS(rest, 1)
       \* checked_mul(2) / usize conversion / pop_len_words bounds
       ELSE IF ~IsSize(n) \/ n > StackLimit \/ 2 * n > Len(rest) THEN Err("index out of bounds")
       ELSE LET a == SubSeq(rest, Len(rest) - 2 * n + 1, Len(rest) - n)
                b == LastN(rest, n) IN
            PushS(DropLast(rest, 2 * n), B2W(a = b))

\* sets.rs decode_set: items are read from the top: item length, then the item.
\* Returns [ok, set]
RECURSIVE DecodeSet(_)
DecodeSet(ws) ==
  IF ws = <<>> THEN [ok |-> TRUE, set |-> {}]
  ELSE LET n == ws[Len(ws)]
           rest == DropLast(ws, 1) IN
       IF ~IsSize(n) \/ n > Len(rest) THEN [ok |-> FALSE, set |-> {}]
       ELSE LET more == DecodeSet(DropLast(rest, n)) IN
            IF more.ok THEN [ok |-> TRUE, set |-> more.set \cup {LastN(rest, n)}]
            ELSE more

OpEqSet(st) ==
  LET r == SplitLenWords(st) IN
  IF ~r.ok THEN Err(r.c)
  ELSE LET l == SplitLenWords(r.rest) IN
  IF ~l.ok THEN Err(l.c)
  ELSE LET ls == DecodeSet(l.words)
           rs == DecodeSet(r.words) IN
       IF ~ls.ok \/ ~rs.ok THEN Err("set decode")
       ELSE PushS(l.rest, B2W(ls.set = rs.set))

-----------------------------------------------------------------------------
(* Memory group (memory.rs + sync.rs step_op_memory) *)
OpAlloc(vm) ==
  LET st == vm.st IN
  IF Len(st) < 1 THEN E("stack empty")
  ELSE LET n == st[Len(st)]
           old == Len(vm.mem) IN
       IF ~IsSize(n) \/ n > MemLimit \/ old + n > MemLimit THEN E("memory overflow")
       ELSE R([vm EXCEPT !.st = Append(DropLast(st, 1), old), !.mem = vm.mem \o Zeros(n)], CNext)

OpFree(vm) ==
  LET st == vm.st IN
  IF Len(st) < 1 THEN E("stack empty")
  ELSE LET n == st[Len(st)] IN
       IF ~IsSize(n) \/ n > Len(vm.mem) THEN E("memory index out of bounds")
       ELSE R([vm EXCEPT !.st = DropLast(st, 1), !.mem = Take(vm.mem, n)], CNext)

\* Load / LoadRange from a given memory (own or parent)
LoadFrom(vm, m) ==
  LET st == vm.st IN
  IF Len(st) < 1 THEN E("stack empty")
  ELSE LET a == st[Len(st)] IN
       IF ~IsSize(a) \/ a >= Len(m) THEN E("memory index out of bounds")
       ELSE R([vm EXCEPT !.st = Append(DropLast(st, 1), m[a + 1])], CNext)

LoadRangeFrom(vm, m) ==
  LET st == vm.st IN
  IF Len(st) < 2 THEN E("stack empty")
  ELSE LET a == st[Len(st) - 1]
           n == st[Len(st)] IN
       \* memory.rs load_range: the address must convert (IndexOutOfBounds), then the size (Overflow),
       \* then the end is compared with the length (IndexOutOfBounds)
       IF ~IsSize(a) THEN E("memory index out of bounds")
       ELSE IF ~IsSize(n) THEN E("memory overflow")
       ELSE IF a > Len(m) \/ n > Len(m) \/ a + n > Len(m) THEN E("memory index out of bounds")
       ELSE OnStack(vm, ExtendS(DropLast(st, 2), SubSeq(m, a + 1, a + n)))

OpStoreM(vm) ==
  LET st == vm.st IN
  IF Len(st) < 2 THEN E("stack empty")
  ELSE LET w == st[Len(st) - 1]
           a == st[Len(st)] IN
       IF ~IsSize(a) \/ a >= Len(vm.mem) THEN E("memory index out of bounds")
       ELSE R([vm EXCEPT !.st = DropLast(st, 2), !.mem = SetAt(vm.mem, a + 1, w)], CNext)

OpStoreRange(vm) ==
  LET st == vm.st IN
  IF Len(st) < 1 THEN E("stack empty")
  ELSE LET a == st[Len(st)]
           s == SplitLenWords(DropLast(st, 1)) IN
       IF ~s.ok THEN E(s.c)
       ELSE IF ~IsSize(a) \/ a > Len(vm.mem) \/ a + Len(s.words) > Len(vm.mem)
            THEN E("memory index out of bounds")
       ELSE R([vm EXCEPT !.st = s.rest, !.mem = Splice(vm.mem, a, s.words)], CNext)

-----------------------------------------------------------------------------
(* Access group (access.rs) *)
OpPredicateData(vm, env) ==
  LET st == vm.st IN
  IF Len(st) < 3 THEN E("missing access arg")
  ELSE LET n == st[Len(st)]
           vi == st[Len(st) - 1]
           si == st[Len(st) - 2]
           rest == DropLast(st, 3) IN
       IF ~IsSize(si) THEN E("slot out of bounds")
       ELSE IF ~IsSize(vi) \/ ~IsSize(n) THEN E("invalid access range")
       ELSE IF si >= Len(env.pdata) THEN E("slot out of bounds")
       ELSE LET slot == env.pdata[si + 1] IN
            IF vi > Len(slot) \/ n > Len(slot) \/ vi + n > Len(slot) THEN E("value range out of bounds")
            ELSE OnStack(vm, ExtendS(rest, SubSeq(slot, vi + 1, vi + n)))

OpPredicateDataLen(vm, env) ==
  LET st == vm.st IN
  IF Len(st) < 1 THEN E("missing access arg")
  ELSE LET si == st[Len(st)] IN
       IF ~IsSize(si) \/ si >= Len(env.pdata) THEN E("slot out of bounds")
       ELSE R([vm EXCEPT !.st = Append(DropLast(st, 1), Len(env.pdata[si + 1]))], CNext)

OpPredicateExists(vm, env) ==
  LET st == vm.st IN
  IF Len(st) < 4 THEN E("stack empty")
  ELSE R([vm EXCEPT !.st = Append(DropLast(st, 4), B2W(LastN(st, 4) \in env.pex))], CNext)

-----------------------------------------------------------------------------
(* Crypto group (crypto.rs).  The primitives are not interpreted: env.orc  *)
(* carries what the primitive answered; the spec fixes which words are     *)
(* consumed and how the answer is laid out.                                *)
(*   SHA2:   orc = <<4 words>>                                             *)
(*   VRFYED: orc = 0 / 1, or -1 when the public key does not parse         *)
(*   RSECP:  orc = <<5 words>> (five zeros: unrecoverable), or <<>> when   *)
(*           the recovery id / compact signature does not parse            *)
(***************************************************************************)
CeilDiv8(n) == (n + 7) \div 8

\* pop_bytes: length in bytes, then ceil(len/8) words; result [ok, rest, words, nbytes]
PopBytes(st) ==
  IF Len(st) < 1 THEN [ok |-> FALSE, c |-> "stack empty"]
  ELSE LET n == st[Len(st)]
           rest == DropLast(st, 1) IN
       IF ~IsSize(n) THEN [ok |-> FALSE, c |-> "length overflow"]
       ELSE IF n > 8 * StackLimit \/ CeilDiv8(n) > Len(rest) THEN [ok |-> FALSE, c |-> "length out of bounds"]
       ELSE [ok |-> TRUE, rest |-> DropLast(rest, CeilDiv8(n)),
             words |-> LastN(rest, CeilDiv8(n)), nbytes |-> n]

OpSha256(vm, env) ==
  LET p == PopBytes(vm.st) IN
  IF ~p.ok THEN E(p.c) ELSE OnStack(vm, ExtendS(p.rest, env.orc))

OpVerifyEd25519(vm, env) ==
  LET st == vm.st IN
  IF Len(st) < 12 THEN E("stack empty")
  ELSE LET p == PopBytes(DropLast(st, 12)) IN
       IF ~p.ok THEN E(p.c)
       ELSE IF env.orc = -1 THEN E("ed25519 key")
       ELSE OnStack(vm, PushS(p.rest, env.orc))

\* recovery id must convert to i32 and be one of 0..3 (secp256k1 RecoveryId)
OpRecoverSecp256k1(vm, env) ==
  LET st == vm.st IN
  IF Len(st) < 13 THEN E("stack empty")
  ELSE LET rid == st[Len(st)] IN
       IF rid < 0 \/ rid > 3 THEN E("recovery id")
       ELSE IF env.orc = <<>> THEN E("secp256k1")
       ELSE OnStack(vm, ExtendS(DropLast(st, 13), env.orc))

-----------------------------------------------------------------------------
(* TotalControlFlow group *)
OpHaltIf(vm) ==
  LET st == vm.st IN
  IF Len(st) < 1 THEN E("stack empty")
  ELSE LET c == st[Len(st)] IN
       IF ~IsBoolW(c) THEN E("invalid halt-if condition")
       ELSE R([vm EXCEPT !.st = DropLast(st, 1)], IF c = 1 THEN CHalt ELSE CNext)

OpJumpIf(vm) ==
  LET st == vm.st IN
  IF Len(st) < 2 THEN E("stack empty")
  ELSE LET d == st[Len(st) - 1]
           c == st[Len(st)]
           vm2 == [vm EXCEPT !.st = DropLast(st, 2)] IN
       IF ~IsBoolW(c) THEN E("invalid jump condition")
       ELSE IF c = 0 THEN R(vm2, CNext)
       ELSE IF d = 0 THEN E("jumped to self")
       \* |WordMin| is not a word: the distance cannot be represented
       ELSE IF d = WordMin THEN E("pc overflow")
       ELSE IF vm.pc + d < 0 THEN E("pc overflow")
       ELSE R(vm2, CPc(vm.pc + d))

OpPanicIf(vm) ==
  LET st == vm.st IN
  IF Len(st) < 1 THEN E("stack empty")
  ELSE LET c == st[Len(st)] IN
       IF ~IsBoolW(c) THEN E("invalid panic-if condition")
       ELSE IF c = 1 THEN E("panic")
       ELSE R([vm EXCEPT !.st = DropLast(st, 1)], CNext)

-----------------------------------------------------------------------------
(* StateRead group (state_read.rs).  view is "pre" or "post"; ext says     *)
(* whether a 4-word external contract address is popped after the key.     *)
(* env.resp = [ok |-> FALSE] (state error) or [ok |-> TRUE, vals |-> ...]  *)
(***************************************************************************)
OpKeyRange(vm, env, view, ext) ==
  LET st == vm.st IN
  IF Len(st) < 1 THEN E("stack empty")
  ELSE LET ma == st[Len(st)] IN
  IF ~IsSize(ma) THEN E("memory index out of bounds")
  ELSE IF Len(st) < 2 THEN E("stack empty")
  ELSE LET cnt == st[Len(st) - 1] IN
  IF ~IsSize(cnt) THEN E("index out of bounds")
  ELSE LET s == SplitLenWords(DropLast(st, 2)) IN
  IF ~s.ok THEN E(s.c)
  ELSE IF ext /\ Len(s.rest) < 4 THEN E("stack empty")
  ELSE LET contract == IF ext THEN LastN(s.rest, 4) ELSE env.contract
           rest == IF ext THEN DropLast(s.rest, 4) ELSE s.rest
           req == [view |-> view, contract |-> contract, key |-> s.words, n |-> cnt] IN
  IF ~env.resp.ok THEN E("state read")
  ELSE LET vals == env.resp.vals
           k == Len(vals)
           total == 2 * k + SumLens(vals) IN
       \* every [addr, len] pair and every value must land inside the existing memory
       \* write_values_to_memory: the address of the first value (ma + 2k) is computed with an overflow
       \* check on words before anything is stored
       IF k > 0 /\ ma + 2 * k > WordMax THEN E("memory overflow")
       ELSE IF k > 0 /\ (ma > Len(vm.mem) \/ ma + total > Len(vm.mem)) THEN E("memory index out of bounds")
       ELSE LET Addr(i) == ma + 2 * k + SumLens(SubSeq(vals, 1, i - 1))
                pairs == [j \in 1..(2 * k) |->
                            IF j % 2 = 1 THEN Addr((j + 1) \div 2) ELSE Len(vals[j \div 2])]
                RECURSIVE Flat(_)
                Flat(vs) == IF vs = <<>> THEN <<>> ELSE Head(vs) \o Flat(Tail(vs))
                mem2 == IF k = 0 THEN vm.mem ELSE Splice(vm.mem, ma, pairs \o Flat(vals)) IN
            RQ([vm EXCEPT !.st = rest, !.mem = mem2], CNext, req)

-----------------------------------------------------------------------------
(* Dispatch (sync.rs step_op).  COM is handled by VmExec (fork/join).      *)
(***************************************************************************)
StepOp(op, vm, env) ==
  LET st == vm.st
      n == op.n IN
  CASE n = "PUSH"  -> OnStack(vm, PushS(st, op.w))
    [] n = "POP"   -> IF Len(st) < 1 THEN E("stack empty") ELSE R([vm EXCEPT !.st = DropLast(st, 1)], CNext)
    [] n = "DUP"   -> OnStack(vm, OpDup(st))
    [] n = "DUPF"  -> OnStack(vm, OpDupFrom(st))
    [] n = "SWAP"  -> OnStack(vm, OpSwap(st))
    [] n = "SWAPI" -> OnStack(vm, OpSwapIndex(st))
    [] n = "SEL"   -> OnStack(vm, OpSelect(st))
    [] n = "SLTR"  -> OnStack(vm, OpSelectRange(st))
    [] n = "REP"   -> OpRepeat(vm)
    [] n = "REPE"  -> OpRepeatEnd(vm)
    [] n = "RES"   -> OnStack(vm, OpReserve(st))
    [] n = "LODS"  -> OnStack(vm, OpLoadS(st))
    [] n = "STOS"  -> OnStack(vm, OpStoreS(st))
    [] n = "DROP"  -> OnStack(vm, OpDrop(st))
    [] n = "EQ"    -> OnStack(vm, Pop2Push1(st, CmpEq))
    [] n = "EQRA"  -> OnStack(vm, OpEqRange(st))
    [] n = "GT"    -> OnStack(vm, Pop2Push1(st, CmpGt))
    [] n = "LT"    -> OnStack(vm, Pop2Push1(st, CmpLt))
    [] n = "GTE"   -> OnStack(vm, Pop2Push1(st, CmpGte))
    [] n = "LTE"   -> OnStack(vm, Pop2Push1(st, CmpLte))
    [] n = "AND"   -> OnStack(vm, Pop2Push1(st, LogAnd))
    [] n = "OR"    -> OnStack(vm, Pop2Push1(st, LogOr))
    [] n = "NOT"   -> OnStack(vm, Pop1Push1(st, LogNot))
    [] n = "EQST"  -> OnStack(vm, OpEqSet(st))
    [] n = "BAND"  -> OnStack(vm, Pop2Push1(st, BAndW))
    [] n = "BOR"   -> OnStack(vm, Pop2Push1(st, BOrW))
    [] n = "ADD"   -> OnStack(vm, Pop2Push1(st, AddW))
    [] n = "SUB"   -> OnStack(vm, Pop2Push1(st, SubW))
    [] n = "MUL"   -> OnStack(vm, Pop2Push1(st, MulW))
    [] n = "DIV"   -> OnStack(vm, Pop2Push1(st, DivW))
    [] n = "MOD"   -> OnStack(vm, Pop2Push1(st, ModW))
    [] n = "SHL"   -> OnStack(vm, Pop2Push1(st, ShlW))
    [] n = "SHR"   -> OnStack(vm, Pop2Push1(st, ShrW))
    [] n = "SHRI"  -> OnStack(vm, Pop2Push1(st, ShrIW))
    [] n = "THIS"  -> OnStack(vm, ExtendS(st, env.predicate))
    [] n = "THISC" -> OnStack(vm, ExtendS(st, env.contract))
    [] n = "REPC"  -> IF vm.rep = <<>> THEN E("no counter")
                      ELSE OnStack(vm, PushS(st, vm.rep[Len(vm.rep)].c))
    [] n = "DATA"  -> OpPredicateData(vm, env)
    [] n = "DLEN"  -> OpPredicateDataLen(vm, env)
    [] n = "DSLT"  -> OnStack(vm, PushS(st, Len(env.pdata)))
    [] n = "PEX"   -> OpPredicateExists(vm, env)
    [] n = "SHA2"  -> OpSha256(vm, env)
    [] n = "VRFYED" -> OpVerifyEd25519(vm, env)
    [] n = "RSECP" -> OpRecoverSecp256k1(vm, env)
    [] n = "HLT"   -> R(vm, CHalt)
    [] n = "HLTIF" -> OpHaltIf(vm)
    [] n = "JMPIF" -> OpJumpIf(vm)
    [] n = "PNCIF" -> OpPanicIf(vm)
    [] n = "ALOC"  -> OpAlloc(vm)
    [] n = "FREE"  -> OpFree(vm)
    [] n = "LOD"   -> LoadFrom(vm, vm.mem)
    [] n = "STO"   -> OpStoreM(vm)
    [] n = "LODR"  -> LoadRangeFrom(vm, vm.mem)
    [] n = "STOR"  -> OpStoreRange(vm)
    [] n = "LODP"  -> IF vm.pm = <<>> THEN E("no parent") ELSE LoadFrom(vm, vm.pm[Len(vm.pm)])
    [] n = "LODPR" -> IF vm.pm = <<>> THEN E("no parent") ELSE LoadRangeFrom(vm, vm.pm[Len(vm.pm)])
    [] n = "KRNG"  -> OpKeyRange(vm, env, "pre", FALSE)
    [] n = "KREX"  -> OpKeyRange(vm, env, "pre", TRUE)
    [] n = "PKRNG" -> OpKeyRange(vm, env, "post", FALSE)
    [] n = "PKREX" -> OpKeyRange(vm, env, "post", TRUE)
    [] n = "COME"  -> R(vm, CCome)

\* All op names except COM (fork/join lives in VmExec)
PlainOpNames ==
  {"POP","DUP","DUPF","SWAP","SWAPI","SEL","SLTR","REP","REPE","RES","LODS","STOS","DROP",
   "EQ","EQRA","GT","LT","GTE","LTE","AND","OR","NOT","EQST","BAND","BOR",
   "ADD","SUB","MUL","DIV","MOD","SHL","SHR","SHRI",
   "THIS","THISC","REPC","DATA","DLEN","DSLT","PEX","SHA2","VRFYED","RSECP",
   "HLT","HLTIF","JMPIF","PNCIF","ALOC","FREE","LOD","STO","LODR","STOR","LODP","LODPR",
   "KRNG","KREX","PKRNG","PKREX","COME"}

(***************************************************************************)
(* Resource bounds (C05): hold in every reachable machine state.           *)
(***************************************************************************)
WithinBounds(vm) ==
  /\ Len(vm.st) <= StackLimit
  /\ Len(vm.mem) <= MemLimit
  /\ Len(vm.rep) <= RepLimit
  /\ Len(vm.pm) <= MaxDepth
  /\ \A i \in 1..Len(vm.st) : InWord(vm.st[i])
  /\ \A i \in 1..Len(vm.mem) : InWord(vm.mem[i])

=============================================================================
