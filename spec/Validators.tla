------------------------------ MODULE Validators ------------------------------
(***************************************************************************)
(* The validators of crates/check (solution::check_set, check_solutions,   *)
(* check_set_state_mutations; predicate::check, check_contract,            *)
(* check_signed_contract) over SIZE DESCRIPTORS - which is all they        *)
(* inspect - written in the order of the code with the limits as           *)
(* constants, and the documented acceptance conditions (C16).              *)
(*   solution  [pd |-> <<slot lengths>>, ms |-> <<[c, kid, kl, vl]>>]      *)
(*             c = contract id, kid = key identity, kl / vl = key / value  *)
(*             length of each mutation                                     *)
(*   predicate [nn |-> nodes, ne |-> edges];  contract = sequence of those *)
(***************************************************************************)
EXTENDS Integers, Sequences, FiniteSets

CONSTANTS MaxSolutions, MaxPredicateData, MaxValueSize, MaxKeySize, MaxStateMutations,
          MaxNodes, MaxEdges, MaxPredicates

Acc == [ok |-> TRUE]
Rej(c) == [ok |-> FALSE, c |-> c]

RECURSIVE FirstBadSolution(_, _)
FirstBadSolution(sols, i) ==
  IF i > Len(sols) THEN Acc
  ELSE IF Len(sols[i].pd) > MaxPredicateData THEN Rej("PredicateDataLenExceeded")
  ELSE IF \E j \in 1..Len(sols[i].pd) : sols[i].pd[j] > MaxValueSize THEN Rej("PredDataValueTooLarge")
  ELSE FirstBadSolution(sols, i + 1)

CheckSolutions(sols) ==
  IF Len(sols) = 0 THEN Rej("Empty")
  ELSE IF Len(sols) > MaxSolutions THEN Rej("TooMany")
  ELSE FirstBadSolution(sols, 1)

RECURSIVE TotalMuts(_)
TotalMuts(sols) == IF sols = <<>> THEN 0 ELSE Len(Head(sols).ms) + TotalMuts(Tail(sols))

\* mutations are visited solution by solution; a slot seen before is rejected before the sizes
\* of that mutation are looked at
RECURSIVE ScanMuts(_, _, _, _)
ScanMuts(sols, i, j, seen) ==
  IF i > Len(sols) THEN Acc
  ELSE IF j > Len(sols[i].ms) THEN ScanMuts(sols, i + 1, 1, seen)
  ELSE LET m == sols[i].ms[j] IN
       IF <<m.c, m.kid>> \in seen THEN Rej("MultipleMutationsForSlot")
       ELSE IF m.kl > MaxKeySize THEN Rej("KeyTooLarge")
       ELSE IF m.vl > MaxValueSize THEN Rej("ValueTooLarge")
       ELSE ScanMuts(sols, i, j + 1, seen \cup {<<m.c, m.kid>>})

CheckSetStateMutations(sols) ==
  IF TotalMuts(sols) > MaxStateMutations THEN Rej("TooManyMutations") ELSE ScanMuts(sols, 1, 1, {})

CheckSet(sols) == LET a == CheckSolutions(sols) IN IF ~a.ok THEN a ELSE CheckSetStateMutations(sols)

\* C16: "accepts a set exactly when ..."
AllMuts(sols) == UNION {{<<i, j>> : j \in 1..Len(sols[i].ms)} : i \in 1..Len(sols)}
DocValidSet(sols) ==
  /\ Len(sols) >= 1 /\ Len(sols) <= MaxSolutions
  /\ \A i \in 1..Len(sols) : /\ Len(sols[i].pd) <= MaxPredicateData
                             /\ \A j \in 1..Len(sols[i].pd) : sols[i].pd[j] <= MaxValueSize
  /\ Cardinality(AllMuts(sols)) <= MaxStateMutations
  /\ \A p \in AllMuts(sols) : /\ sols[p[1]].ms[p[2]].kl <= MaxKeySize
                              /\ sols[p[1]].ms[p[2]].vl <= MaxValueSize
  /\ \A p, q \in AllMuts(sols) :
       (sols[p[1]].ms[p[2]].c = sols[q[1]].ms[q[2]].c /\ sols[p[1]].ms[p[2]].kid = sols[q[1]].ms[q[2]].kid) => p = q

CheckPredicate(p) ==
  IF p.nn > MaxNodes THEN Rej("TooManyNodes") ELSE IF p.ne > MaxEdges THEN Rej("TooManyEdges") ELSE Acc

RECURSIVE FirstBadPredicate(_, _)
FirstBadPredicate(ps, i) ==
  IF i > Len(ps) THEN Acc ELSE IF ~CheckPredicate(ps[i]).ok THEN CheckPredicate(ps[i]) ELSE FirstBadPredicate(ps, i + 1)
CheckContract(ps) == IF Len(ps) > MaxPredicates THEN Rej("TooManyPredicates") ELSE FirstBadPredicate(ps, 1)
DocValidContract(ps) ==
  Len(ps) <= MaxPredicates /\ \A i \in 1..Len(ps) : ps[i].nn <= MaxNodes /\ ps[i].ne <= MaxEdges

\* a signed contract additionally needs a signature from which a key can be recovered
CheckSignedContract(ps, sigRecoverable) == IF ~sigRecoverable THEN Rej("Signature") ELSE CheckContract(ps)
=============================================================================
