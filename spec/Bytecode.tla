------------------------------ MODULE Bytecode ------------------------------
(***************************************************************************)
(* The bytecode codec (crates/asm/src/lib.rs from_bytes / to_bytes and the *)
(* code generated from asm.yml), the op-index mapping                      *)
(* (crates/vm/src/bytecode.rs) and the effect scan                         *)
(* (crates/asm/src/effects.rs), over an operation table                    *)
(*   Table == << [group, name, short, opcode, args] ... >>                 *)
(* An operation is [n |-> short name] or, for an op with immediate bytes,  *)
(* [n |-> short name, imm |-> <<bytes>>].  Bytes are 0..255.               *)
(***************************************************************************)
EXTENDS Integers, Sequences, FiniteSets

CONSTANT Table

Rows == 1..Len(Table)
IsOpcode(b) == \E i \in Rows : Table[i].opcode = b
RowOf(b) == Table[CHOOSE i \in Rows : Table[i].opcode = b]
RowByShort(n) == Table[CHOOSE i \in Rows : Table[i].short = n]

(* Table sanity (C13): unique strictly increasing opcodes, unique short names, opcodes are
   bytes, 8 immediate bytes for Push and none otherwise *)
TableSane ==
  /\ \A i \in Rows : Table[i].opcode \in 1..255
  /\ \A i, j \in Rows : i < j => Table[i].opcode < Table[j].opcode
  /\ \A i, j \in Rows : i # j => Table[i].short # Table[j].short
  /\ \A i \in Rows : Table[i].args = (IF Table[i].short = "PUSH" THEN 8 ELSE 0)

-----------------------------------------------------------------------------
(* Serialiser (to_bytes) *)
Ser1(op) == LET r == RowByShort(op.n) IN <<r.opcode>> \o (IF r.args > 0 THEN op.imm ELSE <<>>)
RECURSIVE Serialise(_)
Serialise(ops) == IF ops = <<>> THEN <<>> ELSE Ser1(Head(ops)) \o Serialise(Tail(ops))

(* Streaming parser (from_bytes): reads an opcode byte, then the immediate bytes.
   Result [ok |-> TRUE, ops, idx] or [ok |-> FALSE, err, ops, idx]  where ops / idx are the
   operations parsed before the error and their byte offsets (0-based). *)
RECURSIVE ParseFrom(_, _, _, _)
ParseFrom(bytes, pos, ops, idx) ==
  IF pos > Len(bytes) THEN [ok |-> TRUE, ops |-> ops, idx |-> idx]
  ELSE LET b == bytes[pos] IN
       IF ~IsOpcode(b) THEN [ok |-> FALSE, err |-> "InvalidOpcode", byte |-> b, ops |-> ops, idx |-> idx]
       ELSE LET r == RowOf(b) IN
            IF pos + r.args > Len(bytes) THEN [ok |-> FALSE, err |-> "NotEnoughBytes", byte |-> b, ops |-> ops, idx |-> idx]
            ELSE LET op == IF r.args > 0 THEN [n |-> r.short, imm |-> SubSeq(bytes, pos + 1, pos + r.args)]
                                         ELSE [n |-> r.short] IN
                 ParseFrom(bytes, pos + 1 + r.args, Append(ops, op), Append(idx, pos - 1))
Parse(bytes) == ParseFrom(bytes, 1, <<>>, <<>>)

(* BytecodeMapped::try_from: the offsets of the operations, same error classes;
   op(i) re-parses at the i-th offset. *)
Map(bytes) == LET p == Parse(bytes) IN
              IF p.ok THEN [ok |-> TRUE, idx |-> p.idx] ELSE [ok |-> FALSE, err |-> p.err, byte |-> p.byte]
OpAt(bytes, idx, i) ==     \* i is 0-based; result [some |-> FALSE] or [some |-> TRUE, op]
  IF i < 0 \/ i >= Len(idx) THEN [some |-> FALSE]
  ELSE LET p == ParseFrom(bytes, idx[i + 1] + 1, <<>>, <<>>) IN [some |-> TRUE, op |-> p.ops[1]]

-----------------------------------------------------------------------------
(* Effects (effects.rs) *)
AllEffects == {"KeyRange", "KeyRangeExtern", "ThisAddress", "ThisContractAddress", "PostKeyRange", "PostKeyRangeExtern"}
EffectsOfShort(n) ==
  CASE n = "KRNG" -> {"KeyRange"} [] n = "KREX" -> {"KeyRangeExtern"}
    [] n = "THIS" -> {"ThisAddress"} [] n = "THISC" -> {"ThisContractAddress"}
    [] n = "PKRNG" -> {"PostKeyRange"} [] n = "PKREX" -> {"PostKeyRangeExtern"}
    [] OTHER -> {}
EffectsOf(op) == EffectsOfShort(op.n)
Analyze(ops) == UNION {EffectsOf(ops[i]) : i \in 1..Len(ops)}

(* bytes_contains_any: a byte loop that looks at opcode positions only - after the Push opcode
   it skips (up to) 8 bytes *)
RECURSIVE ScanFrom(_, _, _)
ScanFrom(bytes, pos, mask) ==
  IF pos > Len(bytes) THEN FALSE
  ELSE LET b == bytes[pos] IN
       IF IsOpcode(b) /\ EffectsOfShort(RowOf(b).short) \cap mask # {} THEN TRUE
       ELSE IF IsOpcode(b) /\ RowOf(b).short = "PUSH" THEN ScanFrom(bytes, pos + 9, mask)
       ELSE ScanFrom(bytes, pos + 1, mask)
ScanAny(bytes, mask) == ScanFrom(bytes, 1, mask)
=============================================================================
