------------------------------- MODULE Words -------------------------------
(***************************************************************************)
(* The word domain of the Essential VM: two's-complement integers in       *)
(* WordMin..WordMax.  The real instance is WordMax = 2^63-1, ShiftBits=64. *)
(* TLC only has 32-bit integers, so the module is written over the three   *)
(* constants and is instantiated                                           *)
(*   - with tiny words (WordMax = 7, ShiftBits = 4) for exhaustive checks  *)
(*     of the ALU against mathematical integer arithmetic, and             *)
(*   - with the "compressed" instance WordMax = 2^29-1, ShiftBits = 64 for *)
(*     trace validation (DESIGN.md 4.1: the map phi sends i64 words into   *)
(*     this instance and commutes with every operation on the guarded      *)
(*     domain).                                                            *)
(* No operator ever forms a number outside roughly 4*WordMax.              *)
(***************************************************************************)
EXTENDS Integers, Sequences

CONSTANTS WordMax,      \* largest word
          ShiftBits     \* shifts accept amounts 0..ShiftBits-1

WordMin == -WordMax - 1
InWord(x) == x >= WordMin /\ x <= WordMax

Ok(v)  == [ok |-> TRUE,  v |-> v]
Err(c) == [ok |-> FALSE, c |-> c]

Abs(x) == IF x < 0 THEN -x ELSE x
Sgn(x) == IF x < 0 THEN -1 ELSE IF x = 0 THEN 0 ELSE 1

\* 0/1 from a boolean
B2W(b) == IF b THEN 1 ELSE 0
\* the VM's notion of a boolean word
IsBoolW(w) == w = 0 \/ w = 1

(***************************************************************************)
(* Checked arithmetic: fails instead of wrapping.                          *)
(***************************************************************************)
AddW(a, b) == LET s == a + b IN IF InWord(s) THEN Ok(s) ELSE Err("overflow")
SubW(a, b) == LET s == a - b IN IF InWord(s) THEN Ok(s) ELSE Err("underflow")

\* The product is formed only when it is known to fit.
MulW(a, b) ==
  IF a = 0 \/ b = 0 THEN Ok(0)
  ELSE LET pa == Abs(a)
           pb == Abs(b)
           bound == IF Sgn(a) = Sgn(b) THEN WordMax ELSE WordMax + 1
       IN IF pa <= bound \div pb THEN Ok(a * b) ELSE Err("overflow")

\* Division and remainder truncate toward zero (TLA+'s \div and % floor).
DivW(a, b) ==
  IF b = 0 THEN Err("div0")
  ELSE IF a = WordMin /\ b = -1 THEN Err("div0")
  ELSE Ok(Sgn(a) * Sgn(b) * (Abs(a) \div Abs(b)))

ModW(a, b) ==
  IF b = 0 THEN Err("div0")
  ELSE IF a = WordMin /\ b = -1 THEN Err("div0")
  ELSE Ok(Sgn(a) * (Abs(a) % Abs(b)))

(***************************************************************************)
(* Shifts.  Shl discards the bits shifted out (two's complement wrap),     *)
(* ShrI is the arithmetic shift (floor division by 2^b), Shr shifts the    *)
(* bit pattern logically.  All defined by iteration so that 2^b is never   *)
(* formed.                                                                 *)
(***************************************************************************)
ShiftOk(b) == b >= 0 /\ b < ShiftBits

Modulus == 2 * (WordMax + 1)
Wrap(d) == IF d > WordMax THEN d - Modulus ELSE IF d < WordMin THEN d + Modulus ELSE d

RECURSIVE ShlIter(_, _)
ShlIter(a, b) == IF b = 0 \/ a = 0 THEN a ELSE ShlIter(Wrap(2 * a), b - 1)

RECURSIVE ShrIIter(_, _)
ShrIIter(a, b) == IF b = 0 \/ a = 0 \/ a = -1 THEN a ELSE ShrIIter(a \div 2, b - 1)

ShlW(a, b)  == IF ShiftOk(b) THEN Ok(ShlIter(a, b)) ELSE Err("overflow")
ShrIW(a, b) == IF ShiftOk(b) THEN Ok(ShrIIter(a, b)) ELSE Err("overflow")
ShrW(a, b)  ==
  IF ~ShiftOk(b) THEN Err("overflow")
  ELSE IF a >= 0 \/ b = 0 THEN Ok(ShrIIter(a, b))
  \* one logical step of a negative word: (a + 2^n) / 2 = 2^(n-1) + floor(a/2)
  ELSE Ok(ShrIIter((WordMax + 1) + (a \div 2), b - 1))

(***************************************************************************)
(* Bitwise and / or on two's-complement integers of any width.             *)
(***************************************************************************)
RECURSIVE BitAnd(_, _)
BitAnd(a, b) ==
  IF a = 0 \/ b = 0 THEN 0
  ELSE IF a = -1 THEN b
  ELSE IF b = -1 THEN a
  ELSE (a % 2) * (b % 2) + 2 * BitAnd(a \div 2, b \div 2)

RECURSIVE BitOr(_, _)
BitOr(a, b) ==
  IF a = 0 THEN b
  ELSE IF b = 0 THEN a
  ELSE IF a = -1 \/ b = -1 THEN -1
  ELSE ((a % 2) + (b % 2) - (a % 2) * (b % 2)) + 2 * BitOr(a \div 2, b \div 2)

(***************************************************************************)
(* Conversions used for indices, lengths and counts: a word is usable as   *)
(* an unsigned size iff it is non-negative.                                *)
(***************************************************************************)
IsSize(w) == w >= 0

=============================================================================
