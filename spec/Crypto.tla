------------------------------- MODULE Crypto -------------------------------
(***************************************************************************)
(* Marshalling of the crypto and PredicateExists operations (crates/vm     *)
(* crypto.rs, access.rs).  Here a word is its 8 big-endian bytes; length   *)
(* words and the recovery id are additionally given as integers.  The      *)
(* primitives (SHA-256, Ed25519, secp256k1 recovery) are not interpreted:  *)
(* this module says WHICH BYTES they receive and HOW their answer is laid  *)
(* out on the stack.                                                       *)
(***************************************************************************)
EXTENDS Integers, Sequences

RECURSIVE Flat(_)
Flat(ws) == IF ws = <<>> THEN <<>> ELSE Head(ws) \o Flat(Tail(ws))
LastN(s, n) == SubSeq(s, Len(s) - n + 1, Len(s))
CeilDiv8(n) == (n + 7) \div 8

\* pop_bytes: `n` bytes are taken from the ceil(n/8) words below the length word; only the
\* first n bytes of those words are kept
DataBytes(wordsBelow, n) == SubSeq(Flat(LastN(wordsBelow, CeilDiv8(n))), 1, n)

\* Sha256: [data words.., n] -> the primitive receives DataBytes; 4 words come back
Sha256Input(stackBelowLen, n) == DataBytes(stackBelowLen, n)

\* VerifyEd25519: [data.., n, sig x8, key x4]
Ed25519Input(st, n) ==
  LET key == Flat(LastN(st, 4))
      sig == Flat(SubSeq(st, Len(st) - 11, Len(st) - 4))
      below == SubSeq(st, 1, Len(st) - 13) IN
  [key |-> key, sig |-> sig, msg |-> DataBytes(below, n)]

\* RecoverSecp256k1: [hash x4, sig x8, recovery id]
SecpInput(st) ==
  [hash |-> Flat(SubSeq(st, Len(st) - 12, Len(st) - 9)), sig |-> Flat(SubSeq(st, Len(st) - 8, Len(st) - 1))]

\* A 33-byte compressed public key is laid out as 4 words + one word holding the 33rd byte in
\* its lowest byte
KeyWords(key33) == <<SubSeq(key33, 1, 8), SubSeq(key33, 9, 16), SubSeq(key33, 17, 24), SubSeq(key33, 25, 32),
                     <<0, 0, 0, 0, 0, 0, 0, key33[33]>> >>
\* 32 bytes -> 4 words
HashWords(h) == <<SubSeq(h, 1, 8), SubSeq(h, 9, 16), SubSeq(h, 17, 24), SubSeq(h, 25, 32)>>

\* PredicateExists pre-image of one solution: for each slot its length word then its words,
\* then the contract's and the predicate's 4 words - as bytes
RECURSIVE SlotsBytes(_)
SlotsBytes(slots) == IF slots = <<>> THEN <<>>
                     ELSE Head(slots).len \o Flat(Head(slots).words) \o SlotsBytes(Tail(slots))
PexPreImage(sol) == SlotsBytes(sol.slots) \o sol.contract \o sol.predicate
=============================================================================
