----------------------------- MODULE LockProof -----------------------------
(***************************************************************************)
(* TLAPS proof that mutual exclusion of Lock.tla holds for ANY finite or   *)
(* infinite set of threads and locks and any number of calls (the TLC      *)
(* models check 3 threads x 2 locks x 2 calls exhaustively).               *)
(*   IndInv == TypeOK /\ HolderInv  is inductive and implies               *)
(*   MutualExclusion.                                                      *)
(***************************************************************************)
EXTENDS Lock, TLAPS

ASSUME ExclusiveLock == Exclusive = TRUE
ASSUME NoneNotThread == None \notin Threads

PCs == {"idle", "wait", "read", "write", "exit"}
TypeOK == /\ pc \in [Threads -> PCs]
          /\ target \in [Threads -> Locks]
          /\ holder \in [Locks -> Threads \cup {None}]

\* a thread inside its closure holds the lock it targets
HolderInv == \A t \in Threads : Inside(t) => holder[target[t]] = t
IndInv == TypeOK /\ HolderInv

LEMMA InitInv == (Init /\ Locks # {}) => IndInv
  BY NoneNotThread DEF Init, IndInv, TypeOK, HolderInv, Inside, PCs, None

LEMMA InvImpliesMutex == IndInv => MutualExclusion
  BY DEF IndInv, HolderInv, MutualExclusion, TypeOK

LEMMA NextInv == IndInv /\ [Next]_vars => IndInv'
<1> SUFFICES ASSUME IndInv, [Next]_vars PROVE IndInv'
  OBVIOUS
<1> USE DEF IndInv, TypeOK, HolderInv, Inside, PCs
<1>1. CASE UNCHANGED vars
  BY <1>1 DEF vars
<1>2. ASSUME NEW t \in Threads, NEW k \in Locks, Request(t, k) PROVE IndInv'
  BY <1>2 DEF Request
<1>3. ASSUME NEW t \in Threads, Acquire(t) PROVE IndInv'
  BY <1>3, ExclusiveLock, NoneNotThread DEF Acquire, None
<1>4. ASSUME NEW t \in Threads, Read(t) PROVE IndInv'
  BY <1>4 DEF Read
<1>5. ASSUME NEW t \in Threads, Write(t) PROVE IndInv'
  BY <1>5 DEF Write
<1>6. ASSUME NEW t \in Threads, Release(t) PROVE IndInv'
  BY <1>6, NoneNotThread DEF Release, None
<1> QED
  BY <1>1, <1>2, <1>3, <1>4, <1>5, <1>6 DEF Next

THEOREM Safety == (Locks # {} /\ Init /\ [][Next]_vars) => []MutualExclusion
<1>1. (Locks # {} /\ Init) => IndInv
  BY InitInv
<1>2. IndInv /\ [Next]_vars => IndInv'
  BY NextInv
<1>3. IndInv => MutualExclusion
  BY InvImpliesMutex
<1> QED
  BY <1>1, <1>2, <1>3, PTL
=============================================================================
