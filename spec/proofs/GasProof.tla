------------------------------ MODULE GasProof ------------------------------
(***************************************************************************)
(* TLAPS proof of the gas invariants of the exec loop (vm.rs) for ANY      *)
(* program, cost function, limit and number of children - the TLC models   *)
(* check them for a program library x cost tables x limits 0..24.          *)
(*                                                                         *)
(* The loop is abstracted to what the invariants talk about: before an op  *)
(* the loop computes its cost c (any natural number up to GasMax) and      *)
(* either refuses it (ChargeOk of VmExec.tla, restated here) or adds it;   *)
(* a Compute additionally adds the sum g of its children's gas at the join *)
(* with the same test (the `fix:` commits e76d41e, 62e8b34).  `spent` is a *)
(* history variable: the mathematical sum of everything executed.          *)
(*   GasSafe == gas = spent /\ gas <= limit /\ gas <= GasMax               *)
(*   Refused ops change nothing ([]-property RefusedUntouched).            *)
(***************************************************************************)
EXTENDS Naturals, TLAPS

CONSTANTS GasMax, Limit
ASSUME Consts == GasMax \in Nat /\ Limit \in Nat /\ Limit <= GasMax

VARIABLES gas, spent, status
vars == <<gas, spent, status>>

\* VmExec!ChargeOk
ChargeOk(g, c, limit) == g + c <= GasMax /\ g + c <= limit

Init == gas = 0 /\ spent = 0 /\ status = "run"

\* one op of cost c (or the children's total c at a join)
Charge(c) ==
  /\ status = "run"
  /\ IF ChargeOk(gas, c, Limit)
     THEN gas' = gas + c /\ spent' = spent + c /\ status' = "run"
     ELSE gas' = gas /\ spent' = spent /\ status' = "oog"

Finish == status = "run" /\ status' = "ok" /\ UNCHANGED <<gas, spent>>

Next == (\E c \in Nat : Charge(c)) \/ Finish
Spec == Init /\ [][Next]_vars

TypeOK == gas \in Nat /\ spent \in Nat /\ status \in {"run", "ok", "oog"}
GasSafe == gas = spent /\ gas <= Limit /\ gas <= GasMax
IndInv == TypeOK /\ GasSafe

RefusedUntouched == [][status' = "oog" /\ status = "run" => gas' = gas /\ spent' = spent]_vars

LEMMA InitInv == Init => IndInv
  BY Consts DEF Init, IndInv, TypeOK, GasSafe

LEMMA NextInv == IndInv /\ [Next]_vars => IndInv'
<1> SUFFICES ASSUME IndInv, [Next]_vars PROVE IndInv'
  OBVIOUS
<1> USE Consts DEF IndInv, TypeOK, GasSafe
<1>1. CASE UNCHANGED vars
  BY <1>1 DEF vars
<1>2. ASSUME NEW c \in Nat, Charge(c) PROVE IndInv'
  BY <1>2 DEF Charge, ChargeOk
<1>3. CASE Finish
  BY <1>3 DEF Finish
<1> QED
  BY <1>1, <1>2, <1>3 DEF Next

THEOREM Safety == Spec => []GasSafe
<1>1. Init => IndInv
  BY InitInv
<1>2. IndInv /\ [Next]_vars => IndInv'
  BY NextInv
<1>3. IndInv => GasSafe
  BY DEF IndInv
<1> QED
  BY <1>1, <1>2, <1>3, PTL DEF Spec

THEOREM Refusal == Spec => RefusedUntouched
<1>1. [Next]_vars => (status' = "oog" /\ status = "run" => gas' = gas /\ spent' = spent)
  <2> SUFFICES ASSUME [Next]_vars, status' = "oog", status = "run" PROVE gas' = gas /\ spent' = spent
    OBVIOUS
  <2>1. CASE UNCHANGED vars
    BY <2>1 DEF vars
  <2>2. ASSUME NEW c \in Nat, Charge(c) PROVE gas' = gas /\ spent' = spent
    BY <2>2 DEF Charge
  <2>3. CASE Finish
    BY <2>3 DEF Finish
  <2> QED
    BY <2>1, <2>2, <2>3 DEF Next
<1> QED
  BY <1>1, PTL DEF Spec, RefusedUntouched
=============================================================================
