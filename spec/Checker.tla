------------------------------- MODULE Checker -------------------------------
(***************************************************************************)
(* The solution-set checker (crates/check/src/solution.rs):                *)
(*   - graph helpers over the node/edge encoding: parent map, Kahn levels, *)
(*     deferred set, caching decision, run-mode filtering;                 *)
(*   - the evaluation of one predicate in one pass (levels in order, nodes *)
(*     of a level in index order, parents' outputs concatenated in         *)
(*     ascending parent order, per-pass and cross-pass caches, leaf        *)
(*     interpretation [1] / [2] / other, failure collection);              *)
(*   - the two-pass entry point: outputs pass, decoding of data outputs    *)
(*     into mutations, post-state = pre-state overlaid with all mutations, *)
(*     checks pass;                                                        *)
(*   - a declarative reference RefTwoPass that knows nothing of levels,    *)
(*     caches or index order (C01), the overlay reference RefRead (C03),   *)
(*     and the validators with their limits (C16).                         *)
(* Node programs are evaluated by the VM specification itself (VmExec!Exec *)
(* over the program's operations); key-range requests are answered by the  *)
(* state model below (pre-state map, post-state overlay).                  *)
(*                                                                         *)
(* A case is a record                                                      *)
(*   [sols   |-> << [contract (4 words), pred (predicate id), predw (4     *)
(*                   words), pdata, decl (declared mutations)] .. >>,      *)
(*    preds  |-> << [nodes |-> <<[es, prog]..>>, edges |-> <<..>>] .. >>,  *)
(*    progs  |-> << [bad |-> BOOLEAN, ops |-> <<op..>>] .. >>,             *)
(*    pre    |-> << [c (4 words), k (key), v (value)] .. >>,               *)
(*    all    |-> collect_all_failures]                                     *)
(* with 1-based predicate and program ids.                                 *)
(***************************************************************************)
EXTENDS Encodings, VmExec

-----------------------------------------------------------------------------
(* State model *)
RECURSIVE NextKey(_)
\* next_key: increment with carry from the last word; none at the end of the key space
NextKey(key) ==
  IF key = <<>> THEN [some |-> FALSE]
  ELSE LET n == Len(key) IN
       IF key[n] # WordMax THEN [some |-> TRUE, key |-> [key EXCEPT ![n] = key[n] + 1]]
       ELSE LET up == NextKey(SubSeq(key, 1, n - 1)) IN
            IF up.some THEN [some |-> TRUE, key |-> Append(up.key, WordMin)] ELSE [some |-> FALSE]

\* value stored for (contract, key) in a list of [c, k, v] entries (later entries win), or none
RECURSIVE FindLast(_, _, _)
FindLast(entries, c, k) ==
  IF entries = <<>> THEN [some |-> FALSE]
  ELSE LET e == entries[Len(entries)] IN
       IF e.c = c /\ e.k = k THEN [some |-> TRUE, v |-> e.v]
       ELSE FindLast(SubSeq(entries, 1, Len(entries) - 1), c, k)

HasContract(entries, c) == \E i \in 1..Len(entries) : entries[i].c = c

\* The pre-state as the harness implements it: n consecutive keys, missing = empty value,
\* stops at the end of the key space.
RECURSIVE PreRead(_, _, _, _)
PreRead(pre, c, key, n) ==
  IF n <= 0 THEN <<>>
  ELSE LET f == FindLast(pre, c, key)
           v == IF f.some THEN f.v ELSE <<>>
           nk == NextKey(key) IN
       <<v>> \o (IF nk.some THEN PreRead(pre, c, nk.key, n - 1) ELSE <<>>)

\* read_or_fallback: the post-state overlay, key by key, as coded
RECURSIVE PostLoop(_, _, _, _, _)
PostLoop(post, pre, c, key, n) ==
  IF n <= 0 THEN <<>>
  ELSE LET f == FindLast(post, c, key)
           v == IF f.some THEN f.v
                ELSE LET one == PreRead(pre, c, key, 1) IN IF one = <<>> THEN <<>> ELSE one[Len(one)]
           nk == NextKey(key) IN
       <<v>> \o (IF nk.some THEN PostLoop(post, pre, c, nk.key, n - 1) ELSE <<>>)

ReadOrFallback(post, pre, c, key, n) ==
  IF HasContract(post, c) THEN PostLoop(post, pre, c, key, n) ELSE PreRead(pre, c, key, n)

\* C03 reference: every key of the range shows the value the set proposes for it (a proposed
\* empty value is a deletion and reads as empty), otherwise the pre-state value.
RECURSIVE KeysFrom(_, _)
KeysFrom(key, n) ==
  IF n <= 0 THEN <<>>
  ELSE LET nk == NextKey(key) IN <<key>> \o (IF nk.some THEN KeysFrom(nk.key, n - 1) ELSE <<>>)
RefRead(post, pre, c, key, n) ==
  LET ks == KeysFrom(key, n) IN
  [i \in 1..Len(ks) |->
     LET f == FindLast(post, c, ks[i]) IN
     IF f.some THEN f.v
     ELSE LET g == FindLast(pre, c, ks[i]) IN IF g.some THEN g.v ELSE <<>>]

\* How a node program's key-range request is answered (C.st = [pre, post]); substituted for
\* VmExec's Answer by the models / trace specifications that check the checker.
StateAnswer(C, req) ==
  [found |-> TRUE,
   resp |-> [ok |-> TRUE,
             vals |-> IF req.view = "pre" THEN PreRead(C.st.pre, req.contract, req.key, req.n)
                      ELSE ReadOrFallback(C.st.post, C.st.pre, req.contract, req.key, req.n)]]

-----------------------------------------------------------------------------
(* Graph helpers *)
NumNodes(p) == Len(p.nodes)
NodeSet(p) == 0..(NumNodes(p) - 1)
Count(s, x) == Cardinality({i \in 1..Len(s) : s[i] = x})

\* first node (ascending) whose edge slice is undefined or points at a missing node
BadNodes(p) == {n \in NodeSet(p) : ~NodeEdges(p, n).some
                                   \/ \E i \in 1..Len(NodeEdges(p, n).es) : NodeEdges(p, n).es[i] >= NumNodes(p)}
Min(S) == CHOOSE x \in S : \A y \in S : x <= y

\* create_parent_map: parents of c in ascending parent order, with multiplicity
RECURSIVE ParentsFrom(_, _, _)
ParentsFrom(p, c, n) ==
  IF n >= NumNodes(p) THEN <<>>
  ELSE [i \in 1..Count(NodeEdges(p, n).es, c) |-> n] \o ParentsFrom(p, c, n + 1)
Parents(p, c) == ParentsFrom(p, c, 0)

Children(p, n) == NodeEdges(p, n).es
IsLeaf(p, n) == Children(p, n) = <<>>

\* ascending sequence of a finite set of naturals
RECURSIVE SortedSeq(_)
SortedSeq(S) == IF S = {} THEN <<>> ELSE LET m == Min(S) IN <<m>> \o SortedSeq(S \ {m})

\* parallel_topo_sort: Kahn by levels; an empty level with nodes left is a cycle
RECURSIVE Kahn(_, _, _, _)
Kahn(p, rem, indeg, acc) ==
  IF rem = {} THEN [ok |-> TRUE, levels |-> acc]
  ELSE LET lvl == {n \in rem : indeg[n] = 0} IN
       IF lvl = {} THEN [ok |-> FALSE]
       ELSE LET dec(m) == Cardinality({<<n, i>> \in lvl \X (1..NumNodes(p) + Len(p.edges)) :
                                        i <= Len(Children(p, n)) /\ Children(p, n)[i] = m}) IN
            Kahn(p, rem \ lvl, [m \in NodeSet(p) |-> IF indeg[m] >= dec(m) THEN indeg[m] - dec(m) ELSE 0],
                 Append(acc, SortedSeq(lvl)))
Levels(p) == Kahn(p, NodeSet(p), [m \in NodeSet(p) |-> Len(Parents(p, m))], <<>>)

\* programs that read the post-state (the byte scan of effects.rs; exact on well-formed code,
\* see Bytecode!ScanExact): a program that does not parse is never one of them here
PostReader(prog) == ~prog.bad /\ \E i \in 1..Len(prog.ops) : prog.ops[i].n \in {"PKRNG", "PKREX"}

\* find_deferred: post readers and ALL their descendants, whatever the numbering
RECURSIVE Closure(_, _)
Closure(p, D) ==
  LET more == D \cup {c \in NodeSet(p) : \E n \in D : Count(Children(p, n), c) > 0} IN
  IF more = D THEN D ELSE Closure(p, more)
Deferred(p, progs) == Closure(p, {n \in NodeSet(p) : PostReader(progs[p.nodes[n + 1].prog])})

ShouldCache(p, D, n) == n \notin D /\ \E i \in 1..Len(Children(p, n)) : Children(p, n)[i] \in D

\* remove_deferred / remove_not_deferred: filter every level, drop empty levels
RECURSIVE FilterLevels(_, _)
FilterLevels(levels, keep) ==
  IF levels = <<>> THEN <<>>
  ELSE LET l == SelectSeq(Head(levels), LAMBDA n : n \in keep) IN
       (IF l = <<>> THEN <<>> ELSE <<l>>) \o FilterLevels(Tail(levels), keep)

-----------------------------------------------------------------------------
(* Running one node (run_program) *)
AllNames == PlainOpNames \cup {"PUSH", "COM"}
NodeCtx(case, sol, prog, post) ==
  [prog |-> prog.ops,
   env |-> [contract |-> sol.contract, predicate |-> sol.predw, pdata |-> sol.pdata, pex |-> {},
            resp |-> EmptyResp, orc |-> <<>>],
   cost |-> [n \in AllNames |-> 1], limit |-> GasMax, reads |-> <<>>,
   st |-> [pre |-> case.pre, post |-> post]]

RECURSIVE CatStacks(_), CatMems(_)
CatStacks(ins) == IF ins = <<>> THEN <<>> ELSE Head(ins).st \o CatStacks(Tail(ins))
CatMems(ins)   == IF ins = <<>> THEN <<>> ELSE Head(ins).mem \o CatMems(Tail(ins))

\* result: [k |-> "err", log] | [k |-> "parent", st, mem, gas, log] | [k |-> "sat", b, gas, log]
\*         | [k |-> "data", mem, gas, log]      (log: the state requests the program made)
RunNode(case, sol, p, n, ins, post) ==
  LET prog == case.progs[p.nodes[n + 1].prog]
      st0 == CatStacks(ins)
      mem0 == CatMems(ins) IN
  IF prog.bad THEN [k |-> "err", log |-> <<>>]
  \* the concatenation goes through Stack / Memory after every parent: any prefix over the limit fails
  ELSE IF Len(st0) > StackLimit \/ Len(mem0) > MemLimit THEN [k |-> "err", log |-> <<>>]
  ELSE LET r == Exec([pc |-> 0, st |-> st0, mem |-> mem0, pm |-> <<>>, rep |-> <<>>, halt |-> FALSE], 0,
                     NodeCtx(case, sol, prog, post)) IN
       IF r.k # "ok" THEN [k |-> "err", log |-> r.log]
       ELSE IF ~IsLeaf(p, n) THEN [k |-> "parent", st |-> r.vm.st, mem |-> r.vm.mem, gas |-> r.gas, log |-> r.log]
       ELSE IF r.vm.st = <<2>> THEN [k |-> "data", mem |-> r.vm.mem, gas |-> r.gas, log |-> r.log]
       ELSE [k |-> "sat", b |-> r.vm.st = <<1>>, gas |-> r.gas, log |-> r.log]

SatAdd(a, b) == IF a + b > GasMax THEN GasMax ELSE a + b

-----------------------------------------------------------------------------
(* One predicate, one pass (check_predicate_inner).                         *)
(* cache: cross-pass cache, a function on a set of nodes; result            *)
(*   [k |-> "graph", node] | [k |-> "prog", nodes] | [k |-> "unsat", nodes] *)
(*   | [k |-> "ok", gas, outs, cache, log]                                  *)
NoCache == [n \in {} |-> 0]
Put(f, n, v) == [m \in DOMAIN f \cup {n} |-> IF m = n THEN v ELSE f[m]]

\* inputs of node n: for each parent in the map's order its output from the cross-pass cache,
\* else from the per-pass cache, else nothing (filter_map)
RECURSIVE InputsOf(_, _, _)
InputsOf(parents, cache, local) ==
  IF parents = <<>> THEN <<>>
  ELSE LET q == Head(parents) IN
       (IF q \in DOMAIN cache THEN <<cache[q]>> ELSE IF q \in DOMAIN local THEN <<local[q]>> ELSE <<>>)
       \o InputsOf(Tail(parents), cache, local)

\* process the results of one level in ascending node order;
\* acc = [cache, local, gas, unsat, outs, failed, log, stop]
RECURSIVE FoldLevel(_, _, _, _, _, _)
FoldLevel(p, D, all, nodes, results, acc) ==
  IF nodes = <<>> \/ acc.stop THEN acc
  ELSE LET n == Head(nodes)
           r == results[n]
           next ==
             CASE r.k = "parent" ->
                    LET o == [st |-> r.st, mem |-> r.mem] IN
                    [acc EXCEPT !.cache = IF ShouldCache(p, D, n) THEN Put(acc.cache, n, o) ELSE acc.cache,
                                !.local = IF ShouldCache(p, D, n) THEN acc.local ELSE Put(acc.local, n, o),
                                !.gas = SatAdd(acc.gas, r.gas)]
               [] r.k = "sat" ->
                    [acc EXCEPT !.unsat = IF r.b THEN acc.unsat ELSE Append(acc.unsat, n),
                                !.gas = SatAdd(acc.gas, r.gas)]
               [] r.k = "data" ->
                    [acc EXCEPT !.outs = Append(acc.outs, r.mem),
                                !.gas = SatAdd(acc.gas, r.gas)]
               [] r.k = "err" ->
                    [acc EXCEPT !.failed = Append(acc.failed, n), !.stop = ~all] IN
       FoldLevel(p, D, all, Tail(nodes), results, next)

RECURSIVE RunLevels(_, _, _, _, _, _, _)
RunLevels(case, sol, p, D, post, levels, acc) ==
  IF levels = <<>> \/ acc.stop THEN acc
  ELSE LET lvl == Head(levels)
           \* every node of the level runs on the caches as they are when the level starts
           results == [n \in {lvl[i] : i \in 1..Len(lvl)} |->
                         RunNode(case, sol, p, n, InputsOf(Parents(p, n), acc.cache, acc.local), post)]
           \* every node of the level ran (in parallel), whatever happens to its result
           RECURSIVE LevelLog(_)
           LevelLog(ns) == IF ns = <<>> THEN <<>> ELSE results[Head(ns)].log \o LevelLog(Tail(ns))
           acc2 == [acc EXCEPT !.log = acc.log \o LevelLog(lvl)] IN
       RunLevels(case, sol, p, D, post, Tail(levels), FoldLevel(p, D, case.all, lvl, results, acc2))

PredicatePass(case, sol, mode, cache, post) ==
  LET p == case.preds[sol.pred] IN
  IF BadNodes(p) # {} THEN [k |-> "graph", node |-> Min(BadNodes(p))]
  ELSE LET lv == Levels(p) IN
  IF ~lv.ok THEN [k |-> "graph", node |-> 0]
  ELSE LET D == Deferred(p, case.progs)
           keep == IF mode = "outputs" THEN NodeSet(p) \ D ELSE D
           acc == RunLevels(case, sol, p, D, post, FilterLevels(lv.levels, keep),
                            [cache |-> cache, local |-> NoCache, gas |-> 0, unsat |-> <<>>, outs |-> <<>>,
                             failed |-> <<>>, log |-> <<>>, stop |-> FALSE]) IN
       IF acc.failed # <<>> THEN [k |-> "prog", nodes |-> acc.failed, log |-> acc.log]
       ELSE IF acc.unsat # <<>> THEN [k |-> "unsat", nodes |-> acc.unsat, log |-> acc.log]
       ELSE [k |-> "ok", gas |-> acc.gas, outs |-> acc.outs, cache |-> acc.cache, log |-> acc.log]

-----------------------------------------------------------------------------
(* The set level (check_set_predicates) and the two-pass entry point *)
\* results of all solutions in index order
PassAll(case, sols, mode, caches, post) ==
  [i \in 1..Len(sols) |-> PredicatePass(case, sols[i], mode, caches[i], post)]

\* post-state entries of a list of solutions: every mutation of every solution, in order
RECURSIVE SolEntries(_, _)
SolEntries(c, muts) == IF muts = <<>> THEN <<>> ELSE <<[c |-> c, k |-> Head(muts).key, v |-> Head(muts).value]>> \o SolEntries(c, Tail(muts))
RECURSIVE PostOf(_)
PostOf(sols) == IF sols = <<>> THEN <<>> ELSE SolEntries(Head(sols).contract, Head(sols).muts) \o PostOf(Tail(sols))

\* decode_mutations: solutions in index order, each solution's data outputs in order; a slot
\* (contract, key) that the set already proposes a value for - declared or computed, by this or
\* another solution - must not be proposed again.
RECURSIVE AddMuts(_, _, _, _)
AddMuts(c, muts, seen, new) ==
  IF new = <<>> THEN [ok |-> TRUE, muts |-> muts, seen |-> seen]
  ELSE LET m == Head(new) IN
       IF <<c, m.key>> \in seen THEN [ok |-> FALSE]
       ELSE AddMuts(c, Append(muts, m), seen \cup {<<c, m.key>>}, Tail(new))
RECURSIVE AddOutputs(_, _, _, _)
AddOutputs(c, muts, seen, outs) ==
  IF outs = <<>> THEN [ok |-> TRUE, muts |-> muts, seen |-> seen]
  ELSE LET d == DecodeMutations(Head(outs)) IN
       IF ~d.ok THEN [ok |-> FALSE]
       ELSE LET a == AddMuts(c, muts, seen, d.ms) IN
            IF ~a.ok THEN [ok |-> FALSE] ELSE AddOutputs(c, a.muts, a.seen, Tail(outs))
SlotsOf(sols) == UNION {{<<sols[i].contract, sols[i].muts[j].key>> : j \in 1..Len(sols[i].muts)} : i \in 1..Len(sols)}
\* [ok |-> TRUE, sols] or [ok |-> FALSE, s |-> index of the first offending solution]
RECURSIVE AddAll(_, _, _, _)
AddAll(sols, rs, i, seen) ==
  IF i > Len(sols) THEN [ok |-> TRUE, sols |-> sols]
  ELSE LET a == AddOutputs(sols[i].contract, sols[i].muts, seen, rs[i].outs) IN
       IF ~a.ok THEN [ok |-> FALSE, s |-> i - 1]
       ELSE AddAll([sols EXCEPT ![i].muts = a.muts], rs, i + 1, a.seen)

\* Outcome of one pass over the whole set:
\*  [k |-> "failed", who |-> <<[s, kind, nodes]..>>] | [k |-> "mut", s] | [k |-> "ok", gas, sols, caches, log]
SetPass(case, sols, mode, caches, post) ==
  LET rs == PassAll(case, sols, mode, caches, post)
      bad == {i \in 1..Len(sols) : rs[i].k # "ok"} IN
  IF bad # {} THEN
    [k |-> "failed",
     who |-> [j \in 1..Cardinality(bad) |->
                LET i == SortedSeq(bad)[j] IN
                [s |-> i - 1, kind |-> rs[i].k,
                 nodes |-> IF rs[i].k = "graph" THEN <<rs[i].node>> ELSE rs[i].nodes]],
     log |-> [i \in 1..Len(sols) |-> IF rs[i].k = "graph" THEN <<>> ELSE rs[i].log]]
  ELSE LET added == AddAll(sols, rs, 1, SlotsOf(sols)) IN
       IF ~added.ok THEN [k |-> "mut", s |-> added.s, log |-> [i \in 1..Len(sols) |-> rs[i].log]]
       ELSE [k |-> "ok",
             gas |-> LET RECURSIVE Sum(_)
                         Sum(i) == IF i = 0 THEN 0 ELSE SatAdd(Sum(i - 1), rs[i].gas) IN Sum(Len(sols)),
             sols |-> added.sols,
             caches |-> [i \in 1..Len(sols) |-> rs[i].cache],
             log |-> [i \in 1..Len(sols) |-> rs[i].log]]

InitSols(case) == [i \in 1..Len(case.sols) |->
                     [contract |-> case.sols[i].contract, pred |-> case.sols[i].pred, predw |-> case.sols[i].predw,
                      pdata |-> case.sols[i].pdata, muts |-> case.sols[i].decl]]

\* check_and_compute_solution_set_two_pass
TwoPass(case) ==
  LET sols0 == InitSols(case)
      p1 == SetPass(case, sols0, "outputs", [i \in 1..Len(sols0) |-> NoCache], <<>>) IN
  IF p1.k # "ok" THEN [k |-> p1.k, pass |-> 1, r |-> p1]
  ELSE LET p2 == SetPass(case, p1.sols, "checks", p1.caches, PostOf(p1.sols)) IN
       IF p2.k # "ok" THEN [k |-> p2.k, pass |-> 2, r |-> p2, log1 |-> p1.log]
       ELSE [k |-> "ok", gas |-> SatAdd(p1.gas, p2.gas), sols |-> p2.sols, log1 |-> p1.log, log2 |-> p2.log]

-----------------------------------------------------------------------------
(* Declarative reference (C01): no levels, no caches, no passes - each node *)
(* of a well-formed DAG is evaluated once on its parents' outputs; nodes    *)
(* that (transitively) depend on a post-state read see the overlay of all   *)
(* mutations proposed by the non-deferred part.                             *)
\* Declarative well-formedness, independent of the operational BadNodes / Kahn: every node has a
\* defined edge slice, every edge points at an existing node, no node reaches itself.
EdgeSet(p) == UNION {{<<n, NodeEdges(p, n).es[i]>> : i \in 1..Len(NodeEdges(p, n).es)} : n \in NodeSet(p)}
RECURSIVE ReachFrom(_, _, _, _)
ReachFrom(EE, NN, S, seen) ==
  LET next == {c \in NN : \E n \in S : <<n, c>> \in EE} \ seen IN
  IF next = {} THEN seen ELSE ReachFrom(EE, NN, next, seen \cup next)
WellFormed(p) ==
  /\ \A n \in NodeSet(p) : NodeEdges(p, n).some
  /\ \A n \in NodeSet(p) : \A i \in 1..Len(NodeEdges(p, n).es) : NodeEdges(p, n).es[i] < NumNodes(p)
  /\ LET EE == EdgeSet(p) NN == NodeSet(p) IN \A n \in NN : n \notin ReachFrom(EE, NN, {n}, {})

\* Out[n]: evaluation by recursion on the longest-path rank
RECURSIVE RefOut(_, _, _, _, _)
RefOut(case, sol, p, n, post) ==
  LET ps == Parents(p, n)
      outs == [i \in 1..Len(ps) |-> RefOut(case, sol, p, ps[i], post)]
      okins == \A i \in 1..Len(ps) : outs[i].k = "parent" IN
  IF ~okins THEN [k |-> "skip"]
  ELSE RunNode(case, sol, p, n, [i \in 1..Len(ps) |-> [st |-> outs[i].st, mem |-> outs[i].mem]], post)

\* phase result for one solution and a set of nodes to account for
RefPhase(case, sol, nodes, post) ==
  LET p == case.preds[sol.pred]
      out == [n \in nodes |-> RefOut(case, sol, p, n, post)] IN
  [failed |-> {n \in nodes : out[n].k = "err"},
   skipped |-> {n \in nodes : out[n].k = "skip"},
   unsat |-> {n \in nodes : out[n].k = "sat" /\ ~out[n].b},
   gas |-> LET RECURSIVE Sum(_)
               Sum(S) == IF S = {} THEN 0 ELSE LET n == Min(S) IN
                         (IF out[n].k \in {"err", "skip"} THEN 0 ELSE out[n].gas) + Sum(S \ {n}) IN Sum(nodes),
   outs |-> LET ds == SortedSeq({n \in nodes : out[n].k = "data"}) IN [i \in 1..Len(ds) |-> out[ds[i]].mem]]
=============================================================================
