------------------------------ MODULE Encodings ------------------------------
(***************************************************************************)
(* Wire encodings of crates/types:                                         *)
(*   - mutations as words (solution/encode.rs, solution/decode.rs)         *)
(*   - predicates as bytes (predicate/encode.rs) and the edge slicing of   *)
(*     the CSR-like node/edge encoding (predicate.rs node_edges)           *)
(* Decoders are explicit position-carrying state machines whose guards are *)
(* the length checks of the code; every decoder is total: it returns       *)
(* [ok |-> TRUE, ...] or [ok |-> FALSE, err |-> class] for every input.    *)
(***************************************************************************)
EXTENDS Integers, Sequences, FiniteSets

LEAF == 65535             \* Edge::MAX marks a node without outgoing edges

-----------------------------------------------------------------------------
(* Mutations: key_len, key.., value_len, value..;  lists: count, mutation.. *)
EncodeMutation(m) == <<Len(m.key)>> \o m.key \o <<Len(m.value)>> \o m.value
RECURSIVE EncodeMutationList(_)
EncodeMutationList(ms) == IF ms = <<>> THEN <<>> ELSE EncodeMutation(Head(ms)) \o EncodeMutationList(Tail(ms))
EncodeMutations(ms) == <<Len(ms)>> \o EncodeMutationList(ms)
EncodedMutationSize(m) == 2 + Len(m.key) + Len(m.value)

\* decode_mutation(words)
DecodeMutation(ws) ==
  IF Len(ws) < 2 THEN [ok |-> FALSE, err |-> "WordsTooShort"]
  ELSE IF ws[1] < 0 THEN [ok |-> FALSE, err |-> "NegativeKeyLength"]
  ELSE LET klen == ws[1]
           kend == 1 + klen IN                       \* 0-based index of the value length word
       IF Len(ws) <= kend THEN [ok |-> FALSE, err |-> "WordsTooShort"]
       ELSE IF ws[kend + 1] < 0 THEN [ok |-> FALSE, err |-> "NegativeValueLength"]
       ELSE LET vlen == ws[kend + 1]
                vstart == 2 + klen
                vend == vstart + vlen IN
            IF Len(ws) < vstart \/ vlen > Len(ws) \/ Len(ws) < vend THEN [ok |-> FALSE, err |-> "WordsTooShort"]
            ELSE [ok |-> TRUE, m |-> [key |-> SubSeq(ws, 2, kend), value |-> SubSeq(ws, vstart + 1, vend)]]

\* decode_mutations(words): the count word is only inspected for sign and zero; mutations are
\* decoded until the words are used up (as the code does).
RECURSIVE DecodeMutationsFrom(_, _, _)
DecodeMutationsFrom(ws, i, acc) ==       \* i is the 0-based position
  IF i >= Len(ws) THEN [ok |-> TRUE, ms |-> acc]
  ELSE LET d == DecodeMutation(SubSeq(ws, i + 1, Len(ws))) IN
       IF ~d.ok THEN d
       ELSE DecodeMutationsFrom(ws, i + EncodedMutationSize(d.m), Append(acc, d.m))

DecodeMutations(ws) ==
  IF ws = <<>> THEN [ok |-> FALSE, err |-> "WordsTooShort"]
  ELSE IF ws[1] < 0 THEN [ok |-> FALSE, err |-> "NegativeValueLength"]
  ELSE IF ws[1] = 0 THEN [ok |-> TRUE, ms |-> <<>>]
  ELSE DecodeMutationsFrom(ws, 1, <<>>)

-----------------------------------------------------------------------------
(* Predicates: nodes [es |-> edge_start, prog |-> program address], edges.  *)
\* Predicate::node_edges(n), n 0-based: [some |-> FALSE] or [some |-> TRUE, es |-> edges]
NodeEdges(p, n) ==
  IF n < 0 \/ n >= Len(p.nodes) THEN [some |-> FALSE]
  ELSE LET node == p.nodes[n + 1] IN
       IF node.es = LEAF THEN [some |-> TRUE, es |-> <<>>]
       ELSE LET start == node.es
                \* the end is the edge_start of the IMMEDIATELY following node unless that one is a leaf
                end == IF n + 1 < Len(p.nodes) /\ p.nodes[n + 2].es # LEAF THEN p.nodes[n + 2].es
                       ELSE Len(p.edges) IN
            IF start > end \/ end > Len(p.edges) THEN [some |-> FALSE]
            ELSE [some |-> TRUE, es |-> SubSeq(p.edges, start + 1, end)]

\* is node n a leaf (no outgoing edges)?
IsLeafEnc(p, n) == NodeEdges(p, n).some /\ NodeEdges(p, n).es = <<>>

-----------------------------------------------------------------------------
(* Predicate wire format (predicate/encode.rs): u16 BE node count, nodes     *)
(* (u16 BE edge_start + program address bytes), u16 BE edge count, edges     *)
(* (u16 BE each).  A node's prog is its address as a sequence of bytes.      *)
U16BE(n) == <<n \div 256, n % 256>>
FromU16BE(hi, lo) == hi * 256 + lo
MaxNodesEnc == 1000
MaxEdgesEnc == 1000

RECURSIVE EncNodes(_), EncEdges(_)
EncNodes(ns) == IF ns = <<>> THEN <<>> ELSE U16BE(Head(ns).es) \o Head(ns).prog \o EncNodes(Tail(ns))
EncEdges(es) == IF es = <<>> THEN <<>> ELSE U16BE(Head(es)) \o EncEdges(Tail(es))

EncodePredicate(p) ==
  IF Len(p.nodes) > MaxNodesEnc THEN [ok |-> FALSE, err |-> "TooManyNodes"]
  ELSE IF Len(p.edges) > MaxEdgesEnc THEN [ok |-> FALSE, err |-> "TooManyEdges"]
  ELSE [ok |-> TRUE, bytes |-> U16BE(Len(p.nodes)) \o EncNodes(p.nodes) \o U16BE(Len(p.edges)) \o EncEdges(p.edges)]

\* predicate_encoded_size for addresses of addrLen bytes
EncodedSize(p, addrLen) == Len(p.nodes) * (2 + addrLen) + Len(p.edges) * 2 + 2 * 2

\* decode_predicate(bytes) for addresses of addrLen bytes; trailing bytes are ignored (as coded)
DecodePredicate(bytes, addrLen) ==
  LET node == 2 + addrLen IN
  IF Len(bytes) < 2 THEN [ok |-> FALSE, err |-> "BytesTooShort"]
  ELSE LET nn == FromU16BE(bytes[1], bytes[2]) IN
  IF Len(bytes) < 2 + nn * node THEN [ok |-> FALSE, err |-> "BytesTooShort"]
  ELSE LET epos == 2 + nn * node IN          \* 0-based position of the edge count
  IF Len(bytes) < epos + 2 THEN [ok |-> FALSE, err |-> "BytesTooShort"]
  ELSE LET ne == FromU16BE(bytes[epos + 1], bytes[epos + 2]) IN
  IF Len(bytes) < epos + 2 + ne * 2 THEN [ok |-> FALSE, err |-> "BytesTooShort"]
  ELSE [ok |-> TRUE,
        p |-> [nodes |-> [i \in 1..nn |-> LET b == 2 + (i - 1) * node IN
                            [es |-> FromU16BE(bytes[b + 1], bytes[b + 2]), prog |-> SubSeq(bytes, b + 3, b + node)]],
               edges |-> [i \in 1..ne |-> LET b == epos + 2 + (i - 1) * 2 IN FromU16BE(bytes[b + 1], bytes[b + 2])]]]

-----------------------------------------------------------------------------
(* postcard (the pre-hash serialisation of solutions, hash/src/lib.rs):      *)
(* LEB128 varints, zigzag for signed integers, length-prefixed sequences;    *)
(* addresses are length-prefixed byte strings.                               *)
RECURSIVE Varint(_)
Varint(n) == IF n < 128 THEN <<n>> ELSE <<128 + (n % 128)>> \o Varint(n \div 128)
\* zigzag + varint of a word; the extremes of the 64-bit range are given explicitly because
\* their zigzag images do not fit the model checker's integers
ZigZagVarint(w, wmax) ==
  IF w = wmax      THEN <<254, 255, 255, 255, 255, 255, 255, 255, 255, 1>>
  ELSE IF w = -wmax - 1 THEN <<255, 255, 255, 255, 255, 255, 255, 255, 255, 1>>
  ELSE IF w = wmax - 1  THEN <<252, 255, 255, 255, 255, 255, 255, 255, 255, 1>>
  ELSE IF w = -wmax     THEN <<253, 255, 255, 255, 255, 255, 255, 255, 255, 1>>
  ELSE Varint(IF w >= 0 THEN 2 * w ELSE -2 * w - 1)

RECURSIVE SerWords(_, _)
SerWords(ws, wmax) == IF ws = <<>> THEN <<>> ELSE ZigZagVarint(Head(ws), wmax) \o SerWords(Tail(ws), wmax)
SerWordVec(ws, wmax) == Varint(Len(ws)) \o SerWords(ws, wmax)
RECURSIVE SerSlots(_, _), SerMuts(_, _)
SerSlots(ss, wmax) == IF ss = <<>> THEN <<>> ELSE SerWordVec(Head(ss), wmax) \o SerSlots(Tail(ss), wmax)
SerMuts(ms, wmax) == IF ms = <<>> THEN <<>>
                     ELSE SerWordVec(Head(ms).key, wmax) \o SerWordVec(Head(ms).value, wmax) \o SerMuts(Tail(ms), wmax)
SerAddr(bytes) == Varint(Len(bytes)) \o bytes
\* Solution { predicate_to_solve { contract, predicate }, predicate_data, state_mutations }
SerSolution(s, wmax) ==
  SerAddr(s.contract) \o SerAddr(s.predicate)
  \o Varint(Len(s.pdata)) \o SerSlots(s.pdata, wmax)
  \o Varint(Len(s.muts)) \o SerMuts(s.muts, wmax)

=============================================================================
