-------------------------------- MODULE Lock --------------------------------
(***************************************************************************)
(* crates/lock: StdLock::apply(f) runs the closure f with exclusive access *)
(* to the guarded value and returns f's result.  Threads apply             *)
(* read-modify-write closures (read the value, then write value + 1, then  *)
(* return what they wrote) to one of several locks.                        *)
(*   pc[t]: "idle" -> "wait" -> "read" -> "write" -> "exit" -> "idle"      *)
(* Exclusive = TRUE is the lock as documented; Exclusive = FALSE is the    *)
(* deviation used to show that the properties can fail and to generate     *)
(* attack schedules.                                                       *)
(***************************************************************************)
EXTENDS Integers, Sequences, FiniteSets

CONSTANTS Threads, Locks, Calls, Exclusive

VARIABLES pc, target, holder, val, tmp, ret, done, applied
vars == <<pc, target, holder, val, tmp, ret, done, applied>>

None == "none"

Init ==
  /\ pc = [t \in Threads |-> "idle"]
  /\ target = [t \in Threads |-> CHOOSE k \in Locks : TRUE]
  /\ holder = [k \in Locks |-> None]
  /\ val = [k \in Locks |-> 0]
  /\ tmp = [t \in Threads |-> 0]
  /\ ret = [t \in Threads |-> <<>>]          \* values returned by t's calls, in order
  /\ done = [t \in Threads |-> 0]
  /\ applied = [k \in Locks |-> 0]           \* closures completed on lock k

Request(t, k) ==
  /\ pc[t] = "idle" /\ done[t] < Calls
  /\ pc' = [pc EXCEPT ![t] = "wait"] /\ target' = [target EXCEPT ![t] = k]
  /\ UNCHANGED <<holder, val, tmp, ret, done, applied>>

Acquire(t) ==
  /\ pc[t] = "wait"
  /\ Exclusive => holder[target[t]] = None
  /\ holder' = [holder EXCEPT ![target[t]] = t]
  /\ pc' = [pc EXCEPT ![t] = "read"]
  /\ UNCHANGED <<target, val, tmp, ret, done, applied>>

Read(t) ==
  /\ pc[t] = "read"
  /\ tmp' = [tmp EXCEPT ![t] = val[target[t]]]
  /\ pc' = [pc EXCEPT ![t] = "write"]
  /\ UNCHANGED <<target, holder, val, ret, done, applied>>

Write(t) ==
  /\ pc[t] = "write"
  /\ val' = [val EXCEPT ![target[t]] = tmp[t] + 1]
  /\ pc' = [pc EXCEPT ![t] = "exit"]
  /\ UNCHANGED <<target, holder, tmp, ret, done, applied>>

Release(t) ==
  /\ pc[t] = "exit"
  /\ holder' = [holder EXCEPT ![target[t]] = IF holder[target[t]] = t THEN None ELSE holder[target[t]]]
  /\ ret' = [ret EXCEPT ![t] = Append(ret[t], tmp[t] + 1)]      \* apply returns the closure's value
  /\ done' = [done EXCEPT ![t] = done[t] + 1]
  /\ applied' = [applied EXCEPT ![target[t]] = applied[target[t]] + 1]
  /\ pc' = [pc EXCEPT ![t] = "idle"]
  /\ UNCHANGED <<target, val, tmp>>

Next == \E t \in Threads : (\E k \in Locks : Request(t, k)) \/ Acquire(t) \/ Read(t) \/ Write(t) \/ Release(t)
Spec == Init /\ [][Next]_vars /\ \A t \in Threads : WF_vars(Acquire(t) \/ Read(t) \/ Write(t) \/ Release(t))

Inside(t) == pc[t] \in {"read", "write", "exit"}
MutualExclusion == \A a, b \in Threads : (a # b /\ Inside(a) /\ Inside(b)) => target[a] # target[b]
\* no update is lost or torn: the value counts the closures that wrote it
NoLostUpdate == \A k \in Locks : applied[k] <= val[k] /\ val[k] <= applied[k] + Cardinality({t \in Threads : pc[t] = "exit" /\ target[t] = k})
AllDone == \A t \in Threads : done[t] = Calls /\ pc[t] = "idle"
FinalCount == AllDone => \A k \in Locks : val[k] = applied[k]
\* the values returned on one lock are all different (each call observes all completed ones)
ReturnsOwnValue == \A t \in Threads : \A i \in 1..Len(ret[t]) : ret[t][i] >= 1
EveryCallReturns == \A t \in Threads : (pc[t] = "wait") ~> (pc[t] = "idle")
=============================================================================
