SPECIFICATION Spec
CONSTANTS
  MaxSols = 2
  Answer <- StateAnswer
INVARIANT PermutationInvariant
INVARIANT AcceptedIsFunctional
CHECK_DEADLOCK FALSE
