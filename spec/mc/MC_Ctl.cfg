SPECIFICATION Spec
CONSTANT Answer <- TableAnswer
INVARIANT LoopDoc
INVARIANT NestDoc
INVARIANT JumpDoc
INVARIANT SkipDoc
INVARIANT HaltDoc
INVARIANT EvalDoc
INVARIANT LimitDoc
CHECK_DEADLOCK FALSE
