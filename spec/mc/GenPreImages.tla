---------------------------- MODULE GenPreImages ----------------------------
(***************************************************************************)
(* Oracle evaluation for C17: reads abstract values (predicates, solutions,*)
(* contracts, solution sets) chosen by the harness and prints, for each,   *)
(* the byte string(s) that the specification says are hashed:              *)
(*   predicate  its wire encoding                                          *)
(*   solution   its postcard serialisation                                 *)
(*   contract   the multiset of its predicates' encodings, and the salt    *)
(*              (address = H(sorted member addresses ++ salt))             *)
(*   set        the multiset of its solutions' serialisations              *)
(*              (address = H(sorted member addresses))                     *)
(* The harness hashes them with SHA-256 and compares with the addresses    *)
(* the real crates computed.                                               *)
(***************************************************************************)
EXTENDS Encodings, Json, IOUtils, TLC

WMaxC == 536870911
Rec == ndJsonDeserialize(IOEnv.TRACE)
VARIABLE l

PredImg(p) == LET e == EncodePredicate([nodes |-> p.nodes, edges |-> p.edges]) IN
              IF e.ok THEN [ok |-> TRUE, bytes |-> e.bytes] ELSE [ok |-> FALSE, bytes |-> <<>>]
SolImg(s) == [ok |-> TRUE, bytes |-> SerSolution(s, WMaxC)]

Img(e) ==
  CASE e.e = "pred" -> [id |-> e.id, ok |-> PredImg(e.p).ok, bytes |-> PredImg(e.p).bytes]
    [] e.e = "sol" -> [id |-> e.id, ok |-> TRUE, bytes |-> SolImg(e.s).bytes]
    [] e.e = "contract" -> [id |-> e.id, members |-> [i \in 1..Len(e.members) |-> PredImg(e.members[i])], salt |-> e.salt]
    [] e.e = "set" -> [id |-> e.id, members |-> [i \in 1..Len(e.members) |-> SolImg(e.members[i])]]

Init == l = 1
Next == l <= Len(Rec) /\ PrintT(<<"GEN", ToJson(Img(Rec[l]))>>) /\ l' = l + 1
Spec == Init /\ [][Next]_l
=============================================================================
