------------------------------ MODULE MC_Sched ------------------------------
(***************************************************************************)
(* C02 on the design: the tasks the checker runs in parallel - one per     *)
(* solution, one per node of a graph level - start and finish in ANY       *)
(* order; results are collected per level in node-index order and per set  *)
(* in solution-index order.  TLC explores every interleaving of            *)
(* StartNode / EndNode / CloseLevel for two solutions over several graph   *)
(* shapes and checks                                                       *)
(*   Confluent      the final result of the pass equals the sequential     *)
(*                  Checker!PassAll (solutions, levels, nodes in index     *)
(*                  order)                                                 *)
(*   CachesPrivate  a task only ever reads its own solution's caches, as   *)
(*                  they were when its level started                       *)
(* (compute children inside one program: MC_VmExec!Confluent).             *)
(***************************************************************************)
EXTENDS Integers, Sequences, FiniteSets, TLC

WordMax == 127
ShiftBits == 8
StackLimit == 40
MemLimit == 40
RepLimit == 2
MaxDepth == 1
GasMax == 100000
ChildGasShared == FALSE
CONSTANT Answer(_, _)
INSTANCE Checker

P(w) == [n |-> "PUSH", w |-> w]
O(n) == [n |-> n]
Body(n) == <<P(1), O("ALOC"), P(20 + n), O("SWAP"), O("STO"), P(10 + n)>>
Clear == <<P(0), O("RES"), O("DROP")>>
\* kinds: "n" (leaf: data output of the inherited memory), "f" (leaf ends in [0]), "e" (fails)
Prog(n, kind) == [bad |-> FALSE,
                  ops |-> Body(n) \o (IF kind = "e" THEN <<P(1), O("PNCIF")>> ELSE <<>>) \o Clear
                          \o <<P(IF kind = "f" THEN 0 ELSE 2)>>]

\* graph shapes: diamond 0->{1,2}->3 ; two roots one child (numbered child-first) ; three independent leaves
Shapes == <<
  [nodes |-> <<[es |-> 0, prog |-> 1], [es |-> 2, prog |-> 2], [es |-> 3, prog |-> 3], [es |-> LEAF, prog |-> 4]>>, edges |-> <<1, 2, 3, 3>>],
  [nodes |-> <<[es |-> LEAF, prog |-> 1], [es |-> 0, prog |-> 2], [es |-> 1, prog |-> 3]>>, edges |-> <<0, 0>>],
  [nodes |-> <<[es |-> LEAF, prog |-> 1], [es |-> LEAF, prog |-> 2], [es |-> LEAF, prog |-> 3]>>, edges |-> <<>>]
>>

QuickConfigs == {<<1, 2, -1, "n", FALSE>>, <<1, 3, 2, "e", FALSE>>, <<2, 3, 1, "f", TRUE>>}
AllConfigs == {<<a, b, m, k, all>> : a \in 1..3, b \in 1..3, m \in -1..3, k \in {"e", "f"}, all \in BOOLEAN}
CONSTANT Configs   \* set of <<shape of solution 1, shape of solution 2, misbehaving node (-1 none), kind, collect_all>>
VARIABLES cfg, lvl, acc, started, ended, closed, result
vars == <<cfg, lvl, acc, started, ended, closed, result>>

Case == [sols |-> [i \in 1..2 |-> [contract |-> <<i, 0, 0, 0>>, pred |-> i, predw |-> <<5, 6, 7, i>>, pdata |-> <<>>, decl |-> <<>>]],
         preds |-> <<Shapes[cfg[1]], Shapes[cfg[2]]>>,
         progs |-> [k \in 1..4 |-> Prog(k - 1, IF cfg[3] = k - 1 THEN cfg[4] ELSE "n")],
         pre |-> <<>>, all |-> cfg[5]]
Sols == InitSols(Case)
Pred(s) == Case.preds[s]
LevelsOf(s) == FilterLevels(Levels(Pred(s)).levels, NodeSet(Pred(s)))
Acc0 == [cache |-> NoCache, local |-> NoCache, gas |-> 0, unsat |-> <<>>, outs |-> <<>>, failed |-> <<>>, log |-> <<>>, stop |-> FALSE]

Init == /\ cfg \in Configs
        /\ lvl = [s \in 1..2 |-> 1] /\ acc = [s \in 1..2 |-> Acc0]
        /\ started = [s \in 1..2 |-> {}] /\ ended = [s \in 1..2 |-> [n \in {} |-> 0]]
        /\ closed = [s \in 1..2 |-> FALSE] /\ result = <<>>

Running(s) == ~closed[s] /\ lvl[s] <= Len(LevelsOf(s)) /\ ~acc[s].stop
LevelNodes(s) == {LevelsOf(s)[lvl[s]][i] : i \in 1..Len(LevelsOf(s)[lvl[s]])}

\* a task captures its inputs when it starts: its own solution's caches of the current level
StartNode(s, n) ==
  /\ Running(s) /\ n \in LevelNodes(s) /\ n \notin started[s]
  /\ started' = [started EXCEPT ![s] = started[s] \cup {n}]
  /\ UNCHANGED <<cfg, lvl, acc, ended, closed, result>>
EndNode(s, n) ==
  /\ Running(s) /\ n \in started[s] /\ n \notin DOMAIN ended[s]
  /\ ended' = [ended EXCEPT ![s] = Put(ended[s], n,
                 RunNode(Case, Sols[s], Pred(s), n, InputsOf(Parents(Pred(s), n), acc[s].cache, acc[s].local), <<>>))]
  /\ UNCHANGED <<cfg, lvl, acc, started, closed, result>>
\* the level barrier: all tasks of the level are back; results are folded in node-index order
CloseLevel(s) ==
  /\ Running(s) /\ DOMAIN ended[s] = LevelNodes(s)
  /\ acc' = [acc EXCEPT ![s] = FoldLevel(Pred(s), {}, Case.all, LevelsOf(s)[lvl[s]], ended[s], acc[s])]
  /\ lvl' = [lvl EXCEPT ![s] = lvl[s] + 1]
  /\ started' = [started EXCEPT ![s] = {}] /\ ended' = [ended EXCEPT ![s] = [n \in {} |-> 0]]
  /\ UNCHANGED <<cfg, closed, result>>
FinishSolution(s) ==
  /\ ~closed[s] /\ (lvl[s] > Len(LevelsOf(s)) \/ acc[s].stop)
  /\ closed' = [closed EXCEPT ![s] = TRUE]
  /\ UNCHANGED <<cfg, lvl, acc, started, ended, result>>
Summary(a) == IF a.failed # <<>> THEN [k |-> "prog", nodes |-> a.failed]
              ELSE IF a.unsat # <<>> THEN [k |-> "unsat", nodes |-> a.unsat]
              ELSE [k |-> "ok", gas |-> a.gas, outs |-> a.outs]
JoinSet ==
  /\ result = <<>> /\ \A s \in 1..2 : closed[s]
  /\ result' = [s \in 1..2 |-> Summary(acc[s])]
  /\ UNCHANGED <<cfg, lvl, acc, started, ended, closed>>
Next == JoinSet \/ \E s \in 1..2 : CloseLevel(s) \/ FinishSolution(s) \/ \E n \in 0..3 : StartNode(s, n) \/ EndNode(s, n)
Spec == Init /\ [][Next]_vars

SeqRes(s) == LET r == PredicatePass(Case, Sols[s], "outputs", NoCache, <<>>) IN
             IF r.k = "ok" THEN [k |-> "ok", gas |-> r.gas, outs |-> r.outs] ELSE [k |-> r.k, nodes |-> r.nodes]
Confluent == result # <<>> => \A s \in 1..2 : result[s] = SeqRes(s)
CachesPrivate == \A s \in 1..2 : DOMAIN acc[s].cache \cup DOMAIN acc[s].local \subseteq NodeSet(Pred(s))
=============================================================================
