SPECIFICATION Spec
CONSTANTS
  MaxN = 3
  MaxE = 2
  Answer <- StateAnswer
INVARIANT OutcomeIsReference
INVARIANT DeferredIsDependents
CHECK_DEADLOCK FALSE
