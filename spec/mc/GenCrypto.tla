------------------------------ MODULE GenCrypto ------------------------------
(***************************************************************************)
(* Oracle evaluation for C12: for every case chosen by the harness (operand *)
(* words as bytes) prints the bytes that, according to Crypto.tla, reach    *)
(* the primitive.  The harness feeds exactly those bytes to the hash / sign *)
(* crates and compares with what the real VM left on the stack.             *)
(***************************************************************************)
EXTENDS Crypto, Json, IOUtils, TLC
Rec == ndJsonDeserialize(IOEnv.TRACE)
VARIABLE l
Img(e) ==
  CASE e.op = "SHA2"   -> [id |-> e.id, msg |-> Sha256Input(e.below, e.n)]
    [] e.op = "VRFYED" -> [id |-> e.id, msg |-> Ed25519Input(e.st, e.n).msg, sig |-> Ed25519Input(e.st, e.n).sig,
                           key |-> Ed25519Input(e.st, e.n).key]
    [] e.op = "RSECP"  -> [id |-> e.id, hash |-> SecpInput(e.st).hash, sig |-> SecpInput(e.st).sig]
    [] e.op = "PEX"    -> [id |-> e.id, pre |-> [i \in 1..Len(e.sols) |-> PexPreImage(e.sols[i])]]
Init == l = 1
Next == l <= Len(Rec) /\ PrintT(<<"GEN", ToJson(Img(Rec[l]))>>) /\ l' = l + 1
Spec == Init /\ [][Next]_l
=============================================================================
