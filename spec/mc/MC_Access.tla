------------------------------ MODULE MC_Access ------------------------------
(***************************************************************************)
(* C12 (access part): PredicateData / PredicateDataLen / PredicateDataSlots *)
(* against their documentation for every (slot, index, length) in (-1..4)^3 *)
(* over predicate data of <= 3 slots of <= 3 words; the byte-length rule of *)
(* pop_bytes for every length 0..17; and the PredicateExists pre-image is   *)
(* injective thanks to the per-slot length prefix.                          *)
(***************************************************************************)
EXTENDS Integers, Sequences, FiniteSets, TLC, Crypto

WordMax == 127
ShiftBits == 8
StackLimit == 8
MemLimit == 4
RepLimit == 2
MaxDepth == 1
VmOps == INSTANCE VmOps

PDatas == {<<>>, << <<1, 2, 3>> >>, << <<>>, <<4>> >>, << <<1, 2>>, <<3>>, <<>> >>}
VARIABLES pd, s, i, cnt, base
vars == <<pd, s, i, cnt, base>>
Init == pd \in PDatas /\ s \in -1..4 /\ i \in -1..4 /\ cnt \in -1..4 /\ base \in {<<>>, <<9>>, <<9, 9, 9, 9, 9>>}
Next == UNCHANGED vars
Spec == Init /\ [][Next]_vars

Env == [contract |-> <<1, 2, 3, 4>>, predicate |-> <<5, 6, 7, 8>>, pdata |-> pd, pex |-> {},
        resp |-> [ok |-> TRUE, vals |-> <<>>], orc |-> <<>>]
Vm(st) == [pc |-> 0, st |-> st, mem |-> <<>>, pm |-> <<>>, rep |-> <<>>, halt |-> FALSE]

DataDoc ==
  LET r == VmOps!StepOp([n |-> "DATA"], Vm(base \o <<s, i, cnt>>), Env)
      inRange == s >= 0 /\ s < Len(pd) /\ i >= 0 /\ cnt >= 0 /\ i + cnt <= Len(pd[s + 1])
      fits == Len(base) + cnt <= StackLimit IN
  IF s >= 0 /\ s < Len(pd) /\ i >= 0 /\ cnt >= 0 /\ i + cnt <= Len(pd[s + 1]) /\ fits
  THEN r.k = "ok" /\ r.vm.st = base \o SubSeq(pd[s + 1], i + 1, i + cnt)
  ELSE r.k = "err"

LenDoc ==
  LET r == VmOps!StepOp([n |-> "DLEN"], Vm(base \o <<s>>), Env) IN
  IF s >= 0 /\ s < Len(pd) THEN r.k = "ok" /\ r.vm.st = base \o <<Len(pd[s + 1])>> ELSE r.k = "err"

SlotsDoc ==
  LET r == VmOps!StepOp([n |-> "DSLT"], Vm(base), Env) IN
  IF Len(base) < StackLimit THEN r.k = "ok" /\ r.vm.st = base \o <<Len(pd)>> ELSE r.k = "err"

AddressDoc ==
  /\ (Len(base) + 4 > StackLimit \/ VmOps!StepOp([n |-> "THIS"], Vm(base), Env).vm.st = base \o <<5, 6, 7, 8>>)
  /\ (Len(base) + 4 > StackLimit \/ VmOps!StepOp([n |-> "THISC"], Vm(base), Env).vm.st = base \o <<1, 2, 3, 4>>)

\* pop_bytes: for every byte length the right number of words is consumed and only the first
\* n bytes are kept (words given as 8 distinct bytes each)
W(k) == [j \in 1..8 |-> 10 * k + j]
ByteRule ==
  \A len \in 0..17 :
    LET ws == <<W(1), W(2), W(3)>>
        d == DataBytes(ws, len) IN
    /\ Len(d) = len
    /\ \A j \in 1..len : d[j] = Flat(SubSeq(ws, 3 - CeilDiv8(len) + 1, 3))[j]
    /\ CeilDiv8(len) * 8 >= len /\ (len = 0 \/ (CeilDiv8(len) - 1) * 8 < len)

\* the PredicateExists pre-image separates [[1],[2]] from [[1,2]] from [[1,2],[]]
Slot(ws) == [len |-> <<0, 0, 0, 0, 0, 0, 0, Len(ws)>>, words |-> [k \in 1..Len(ws) |-> <<0, 0, 0, 0, 0, 0, 0, ws[k]>>]]
Sol(slots) == [slots |-> [k \in 1..Len(slots) |-> Slot(slots[k])], contract |-> <<1>>, predicate |-> <<2>>]
SlotLists == {<<>>, << <<>> >>, << <<1>> >>, << <<1>>, <<2>> >>, << <<1, 2>> >>, << <<1, 2>>, <<>> >>, << <<>>, <<1, 2>> >>, << <<2>>, <<1>> >>}
PexInjective == \A a, b \in SlotLists : a # b => PexPreImage(Sol(a)) # PexPreImage(Sol(b))
=============================================================================
