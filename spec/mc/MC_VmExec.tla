------------------------------ MODULE MC_VmExec ------------------------------
(***************************************************************************)
(* Small-step model of Vm::exec with a Compute whose children INTERLEAVE   *)
(* freely (crates/vm/src/vm.rs, compute.rs), checked against the           *)
(* sequential big-step reference Exec of VmExec.tla:                       *)
(*   Confluent       every interleaving ends in the outcome the sequential *)
(*                   reference computes (C02 / C10)                        *)
(*   Bounds          stack / memory / repeat / depth bounds after every    *)
(*                   step of every machine (C05)                           *)
(*   GasWithinLimit  no machine ever holds more gas than the limit (C07)   *)
(*   GasExact        gas = sum of the costs of the executed ops (C07)      *)
(*   OutOfGasBeforeEffect  a refused op leaves the machine untouched (C07) *)
(*   Terminates      positive costs + finite limit => termination (C07)    *)
(* over a library of programs x cost functions x every limit 0..MaxLimit.  *)
(***************************************************************************)
EXTENDS Integers, Sequences, FiniteSets, TLC

CONSTANTS MaxLimit, Costs, ProgIds

WordMax == 127
ShiftBits == 8
StackLimit == 8
MemLimit == 6
RepLimit == 2
MaxDepth == 1
GasMax == 40
ChildGasShared == FALSE
CONSTANT Answer(_, _)
INSTANCE VmExec

\* <<cost of every op but COM, cost of COM>>
CostSet == {<<1, 1>>, <<2, 1>>, <<0, 3>>, <<1, 0>>}
CostSetQuick == {<<1, 1>>, <<2, 1>>}

P(w) == [n |-> "PUSH", w |-> w]
O(n) == [n |-> n]

Progs == <<
  \* 1 straight line
  <<P(1), P(2), O("ADD"), O("POP")>>,
  \* 2 backward jump loop counting 2 down to 0
  <<P(2), P(-1), O("ADD"), O("DUP"), P(0), O("GT"), P(-7), O("SWAP"), O("JMPIF")>>,
  \* 3 repeat up, counter pushed
  <<P(2), P(1), O("REP"), O("REPC"), O("POP"), O("REPE")>>,
  \* 4 compute, 2 children allocating index+1 words and storing the index
  <<P(2), O("COM"), O("DUP"), P(1), O("ADD"), O("ALOC"), O("POP"), O("DUP"), O("DUP"), O("STO"), O("COME"), P(5)>>,
  \* 5 compute, 3 children taking different paths: child 0 halts early, child 2 runs past COME position
  <<P(3), O("COM"), O("DUP"), P(0), O("EQ"), O("HLTIF"), P(1), O("ALOC"), O("POP"), O("COME"), P(4), O("POP")>>,
  \* 6 compute whose child 1 fails
  <<P(2), O("COM"), O("DUP"), P(1), O("EQ"), O("PNCIF"), O("COME")>>,
  \* 7 loop around a compute
  <<P(2), P(1), O("REP"), P(2), O("COM"), O("POP"), O("COME"), O("REPE")>>,
  \* 8 infinite loop
  <<P(-1), P(1), O("JMPIF")>>,
  \* 9 children read parent memory and overflow the joined memory (3 x 2 + 1 > 6)
  <<P(1), O("ALOC"), O("POP"), P(3), O("COM"), P(0), O("LODP"), P(2), O("ALOC"), O("STO"), O("COME")>>,
  \* 10 nested compute inside a child, breadth 0, missing breadth
  <<P(1), O("COM"), P(1), O("COM"), O("COME")>>,
  <<P(0), O("COM"), O("COME")>>,
  <<O("COM")>>,
  \* 13 short compute whose two children leave DIFFERENT one-word memories (join order observable
  \*    within the quick gas bound: 2 + 2 * 4 = 10)
  <<P(2), O("COM"), P(1), O("ALOC"), O("STO"), O("COME")>>
>>

Env0 == [contract |-> <<1, 2, 3, 4>>, predicate |-> <<5, 6, 7, 1>>, pdata |-> <<>>, pex |-> {},
         resp |-> [ok |-> TRUE, vals |-> <<>>], orc |-> <<>>]
Vm0 == [pc |-> 0, st |-> <<>>, mem |-> <<>>, pm |-> <<>>, rep |-> <<>>, halt |-> FALSE]

AllOpNames == PlainOpNames \cup {"PUSH", "COM"}

VARIABLES pid, cost, limit,     \* the configuration (chosen initially, then fixed)
          top, tgas,            \* the top-level machine and its gas
          kids,                 \* <<>> or a sequence of [vm, gas, st] for the children of the running Compute
          status,               \* "run" | "ok" | "err" | "oog"
          spent                 \* history: sum of the costs of all executed ops (for GasExact)
vars == <<pid, cost, limit, top, tgas, kids, status, spent>>

C == [prog |-> Progs[pid], env |-> Env0, cost |-> [n \in AllOpNames |-> IF n = "COM" THEN cost[2] ELSE cost[1]],
      limit |-> limit, reads |-> <<>>]
Prog == Progs[pid]
Done0(v) == v.pc < 0 \/ v.pc >= Len(Prog)
CostAt(v) == C.cost[Prog[v.pc + 1].n]

Init ==
  /\ pid \in ProgIds /\ cost \in Costs /\ limit \in 0..MaxLimit
  /\ top = Vm0 /\ tgas = 0 /\ kids = <<>> /\ status = "run" /\ spent = 0

\* control flow of the exec loop
Advance(v, r) ==
  CASE r.ctl.t = "next" -> [r.vm EXCEPT !.pc = v.pc + 1]
    [] r.ctl.t = "pc"   -> [r.vm EXCEPT !.pc = r.ctl.n]
    [] r.ctl.t = "halt" -> r.vm
    [] r.ctl.t = "come" -> [r.vm EXCEPT !.pc = v.pc + 1]

ForkOKvm(v) == Len(v.st) >= 1 /\ v.st[Len(v.st)] >= 1 /\ Len(v.pm) < MaxDepth /\ Len(v.st) - 1 < StackLimit

TopFinish ==
  /\ status = "run" /\ kids = <<>> /\ Done0(top)
  /\ status' = "ok"
  /\ UNCHANGED <<pid, cost, limit, top, tgas, kids, spent>>

TopStep ==
  /\ status = "run" /\ kids = <<>> /\ ~Done0(top)
  /\ LET op == Prog[top.pc + 1]
         c == CostAt(top) IN
     IF ~ChargeOk(tgas, c, limit)
     THEN status' = "oog" /\ UNCHANGED <<top, tgas, kids, spent>>
     ELSE /\ tgas' = tgas + c /\ spent' = spent + c
          /\ IF op.n = "COM"
             THEN IF ForkOKvm(top)
                  THEN /\ kids' = [i \in 1..top.st[Len(top.st)] |->
                                     [vm |-> ChildInit(top, DropLast(top.st, 1), i - 1), gas |-> 0, st |-> "run"]]
                       /\ UNCHANGED <<top, status>>
                  ELSE status' = "err" /\ UNCHANGED <<top, kids>>
             ELSE LET r == StepWithState(op, top, C) IN
                  IF r.k = "err" THEN status' = "err" /\ UNCHANGED <<top, kids>>
                  ELSE /\ top' = Advance(top, r)
                       /\ status' = IF r.ctl.t \in {"halt", "come"} THEN "ok" ELSE "run"
                       /\ UNCHANGED kids
  /\ UNCHANGED <<pid, cost, limit>>

KidStep(i) ==
  /\ status = "run" /\ kids # <<>> /\ kids[i].st = "run"
  /\ LET k == kids[i] IN
     IF Done0(k.vm) THEN kids' = [kids EXCEPT ![i].st = "done"] /\ UNCHANGED spent
     ELSE LET op == Prog[k.vm.pc + 1]
              c == CostAt(k.vm) IN
          IF ~ChargeOk(k.gas, c, limit) THEN kids' = [kids EXCEPT ![i].st = "fail"] /\ UNCHANGED spent
          ELSE /\ spent' = spent + c
               /\ IF op.n = "COM" THEN kids' = [kids EXCEPT ![i].st = "fail", ![i].gas = k.gas + c]   \* depth reached
                  ELSE LET r == StepWithState(op, k.vm, C) IN
                       IF r.k = "err" THEN kids' = [kids EXCEPT ![i].st = "fail", ![i].gas = k.gas + c]
                       ELSE kids' = [kids EXCEPT ![i].vm = Advance(k.vm, r), ![i].gas = k.gas + c,
                                                 ![i].st = IF r.ctl.t \in {"halt", "come"} THEN "done" ELSE "run"]
  /\ UNCHANGED <<pid, cost, limit, top, tgas, status>>

RECURSIVE CatMem(_), SumGas(_), MaxPc(_, _)
CatMem(ks) == IF ks = <<>> THEN <<>> ELSE Head(ks).vm.mem \o CatMem(Tail(ks))
SumGas(ks) == IF ks = <<>> THEN 0 ELSE Head(ks).gas + SumGas(Tail(ks))
MaxPc(ks, p) == IF ks = <<>> THEN p ELSE MaxPc(Tail(ks), Max(p, Head(ks).vm.pc))

Join ==
  /\ status = "run" /\ kids # <<>>
  /\ \A i \in 1..Len(kids) : kids[i].st # "run"
  /\ IF \E i \in 1..Len(kids) : kids[i].st = "fail"
     THEN status' = "err" /\ UNCHANGED <<top, tgas>>
     ELSE LET m == CatMem(kids)
              g == SumGas(kids) IN
          IF Len(top.mem) + Len(m) > MemLimit \/ g > GasMax THEN status' = "err" /\ UNCHANGED <<top, tgas>>
          \* the parent adds the children's gas: overflow or beyond the limit is out-of-gas at the Compute
          ELSE IF tgas + g > GasMax \/ tgas + g > limit THEN status' = "err" /\ UNCHANGED <<top, tgas>>
          ELSE /\ top' = [top EXCEPT !.st = DropLast(top.st, 1), !.mem = top.mem \o m, !.pc = MaxPc(kids, top.pc)]
               /\ tgas' = tgas + g
               /\ status' = "run"
  /\ kids' = <<>>
  /\ UNCHANGED <<pid, cost, limit, spent>>

Next == TopFinish \/ TopStep \/ Join \/ \E i \in 1..Len(kids) : KidStep(i)
Spec == Init /\ [][Next]_vars /\ WF_vars(Next)

-----------------------------------------------------------------------------
Ref == Exec(Vm0, 0, C)

\* join-time out-of-gas is reported by the sequential reference as a failure of the Compute
Confluent ==
  status # "run" =>
    /\ status = Ref.k
    /\ status = "ok"  => top = Ref.vm /\ tgas = Ref.gas
    /\ status = "oog" => top = Ref.vm /\ tgas = Ref.gas

AllVms == {top} \cup (IF kids = <<>> THEN {} ELSE {kids[i].vm : i \in 1..Len(kids)})
Bounds == \A v \in AllVms : WithinBounds(v)
GasWithinLimit == tgas <= limit /\ (kids # <<>> => \A i \in 1..Len(kids) : kids[i].gas <= limit)
\* On success the reported gas is exactly the sum of the costs of every executed op (children included)
GasExact == status = "ok" => tgas = spent
\* an op is refused before it has any effect
OutOfGasBeforeEffect == [][status' = "oog" => top' = top /\ tgas' = tgas]_vars
\* with positive costs every execution ends
Terminates == (cost[1] >= 1 /\ cost[2] >= 1) => <>(status # "run")
=============================================================================
