----------------------------- MODULE MC_Overlay -----------------------------
(***************************************************************************)
(* C03 (overlay): the operational post-state read of the checker           *)
(* (read_or_fallback: contract-absent shortcut, per-key loop with fallback *)
(* to the pre-state, next_key with carry, stop at the end of the key       *)
(* space) against the declarative reference RefRead ("the value the set    *)
(* proposes for that contract and key - an empty value meaning deletion -  *)
(* and otherwise the pre-state value"), for every start key of length      *)
(* 1..KeyLen over {WordMax-1, WordMax, WordMin, 0, 1}, every count 0..4,   *)
(* own and foreign contract, and every pre-state / mutation set over the   *)
(* keys of the requested range.                                            *)
(***************************************************************************)
EXTENDS Integers, Sequences, FiniteSets, TLC

CONSTANT KeyLen

WordMax == 127
ShiftBits == 8
StackLimit == 8
MemLimit == 8
RepLimit == 2
MaxDepth == 1
GasMax == 1000
ChildGasShared == FALSE
CONSTANT Answer(_, _)
INSTANCE Checker

Ws == {WordMax - 1, WordMax, WordMin, 0, 1}
Keys == UNION {[1..k -> Ws] : k \in 1..KeyLen}
Own == <<1, 2, 3, 4>>
Other == <<5, 6, 7, 8>>
Vals == {<<>>, <<7>>, <<7, 8>>}

VARIABLES start, cnt, who, postv, prev, otherPost, ready
vars == <<start, cnt, who, postv, prev, otherPost, ready>>

Slots == KeysFrom(start, 4)          \* the keys a read of up to 4 values can touch

Init == /\ start \in Keys /\ cnt \in 0..4 /\ who \in {Own, Other}
        /\ postv = <<>> /\ prev = <<>> /\ otherPost = FALSE /\ ready = FALSE
Next == /\ ~ready /\ ready' = TRUE
        \* per slot: 0 = not mutated, 1..3 = mutated to Vals
        /\ postv' \in [1..Len(Slots) -> 0..3]
        /\ prev' \in [1..Len(Slots) -> BOOLEAN]
        /\ otherPost' \in BOOLEAN
        /\ UNCHANGED <<start, cnt, who>>
Spec == Init /\ [][Next]_vars

ValOf(i) == CASE i = 1 -> <<>> [] i = 2 -> <<7>> [] i = 3 -> <<7, 8>>
RECURSIVE Entries(_)
Entries(i) == IF i > Len(Slots) THEN <<>>
              ELSE (IF postv[i] = 0 THEN <<>> ELSE <<[c |-> Own, k |-> Slots[i], v |-> ValOf(postv[i])]>>) \o Entries(i + 1)
Post == Entries(1) \o (IF otherPost THEN <<[c |-> Other, k |-> <<0>>, v |-> <<5>>]>> ELSE <<>>)
RECURSIVE PreEntries(_)
PreEntries(i) == IF i > Len(Slots) THEN <<>>
                 ELSE (IF prev[i] THEN <<[c |-> Own, k |-> Slots[i], v |-> <<20 + i>>], [c |-> Other, k |-> Slots[i], v |-> <<30 + i>>]>> ELSE <<>>)
                      \o PreEntries(i + 1)
Pre == PreEntries(1)

OverlayIsReference ==
  ready => ReadOrFallback(Post, Pre, who, start, cnt) = RefRead(Post, Pre, who, start, cnt)

\* pre-state reads are answered from the pre-state alone
PreNeverSeesMutations ==
  ready => StateAnswer([st |-> [pre |-> Pre, post |-> Post]], [view |-> "pre", contract |-> who, key |-> start, n |-> cnt]).resp.vals
           = PreRead(Pre, who, start, cnt)

\* a read of n keys returns at most n values, exactly n unless the key space ends
Shape ==
  ready => LET r == ReadOrFallback(Post, Pre, who, start, cnt) IN
           Len(r) = Len(KeysFrom(start, cnt)) /\ Len(r) <= cnt
=============================================================================
