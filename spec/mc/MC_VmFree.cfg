SPECIFICATION Spec
CONSTANT MaxSteps = 6
INVARIANT TypeOK
INVARIANT Bounds
CHECK_DEADLOCK FALSE
