---------------------------- MODULE MC_Validators ----------------------------
(***************************************************************************)
(* C16: the validators, written in the order of the code, accept exactly   *)
(* what the documentation says, for EVERY set / contract with every size   *)
(* in 0..limit+1 in every combination (limits shrunk to 2).                *)
(***************************************************************************)
EXTENDS Integers, Sequences, FiniteSets, TLC
MaxSolutions == 2
MaxPredicateData == 2
MaxValueSize == 2
MaxKeySize == 2
MaxStateMutations == 2
MaxNodes == 2
MaxEdges == 2
MaxPredicates == 2
INSTANCE Validators

Sizes == 0..3
M(c, kid, kl, vl) == [c |-> c, kid |-> kid, kl |-> kl, vl |-> vl]
\* a menu of solution descriptors that sits at, below and above every per-solution limit and
\* produces slot collisions inside one solution and across solutions / contracts
PdMenu == {<<>>, <<2, 2>>, <<3>>, <<0, 0, 0>>}
MsMenu == {<<>>, <<M(1, 1, 2, 2)>>, <<M(1, 1, 1, 0), M(1, 2, 1, 0)>>, <<M(1, 1, 1, 0), M(1, 1, 1, 1)>>,
           <<M(1, 1, 3, 0)>>, <<M(1, 2, 1, 3)>>, <<M(2, 1, 1, 1)>>, <<M(1, 1, 1, 0), M(1, 2, 1, 0), M(2, 1, 1, 0)>>}
SolDesc == [pd : PdMenu, ms : MsMenu]
PredDesc == [nn : Sizes, ne : Sizes]

VARIABLES kind, x
Init == \/ kind = "set" /\ x = <<>>
        \/ kind = "contract" /\ x \in UNION {[1..n -> PredDesc] : n \in 0..3}
\* sets grow one solution at a time (0..3 solutions)
Next == \/ kind = "set" /\ Len(x) < 3 /\ \E sd \in SolDesc : x' = Append(x, sd) /\ UNCHANGED kind
        \/ kind = "contract" /\ UNCHANGED <<kind, x>>
Spec == Init /\ [][Next]_<<kind, x>>

SetDoc == kind = "set" => (CheckSet(x).ok <=> DocValidSet(x))
EmptySetRejected == (kind = "set" /\ x = <<>>) => ~CheckSet(x).ok
ContractDoc == kind = "contract" => (CheckContract(x).ok <=> DocValidContract(x))
SignedDoc == kind = "contract" => /\ ~CheckSignedContract(x, FALSE).ok
                                  /\ CheckSignedContract(x, TRUE) = CheckContract(x)
=============================================================================
