----------------------------- MODULE MC_Bytecode -----------------------------
(***************************************************************************)
(* C13 / C14 / C15 on the design: every byte string of up to MaxLen        *)
(* symbols; a symbol is one byte of a byte class (Push, every effectful    *)
(* opcode, plain opcodes, 0x00, 0xFF, an unassigned byte inside the        *)
(* assigned range) or a COMPLETE Push whose 8 immediate bytes all equal a  *)
(* byte of PushImms (so immediates that look like effectful opcodes, like  *)
(* Push itself and like invalid opcodes occur in well-formed programs, and *)
(* every truncation point of a Push occurs through the single bytes).      *)
(*   RoundTrip / Unambiguous   parse o serialise = id on ops; a successful *)
(*                             parse serialises back to exactly the bytes  *)
(*   ErrorClasses              invalid opcode vs truncated immediate       *)
(*   MappedIsParsed            mapping = parsing (same verdict, same ops,  *)
(*                             random access agrees)                       *)
(*   ScanExact                 the byte scan answers exactly "some parsed  *)
(*                             op has one of the effects", for all 64 masks*)
(* The table is the one generated from asm.yml, which must equal the       *)
(* pinned table.                                                           *)
(***************************************************************************)
EXTENDS Integers, Sequences, FiniteSets, TLC, OpTablePinned, OpTableGen

CONSTANTS MaxLen, PushImms
ASSUME TableDidNotDrift == GenTable = PinnedTable
Table == GenTable
INSTANCE Bytecode

Classes == {1, 2, 48, 49, 128, 129, 130, 131, 0, 255, 15}
VARIABLES bytes, syms
\* strings grow one symbol at a time so that TLC's workers share the enumeration
Init == bytes = <<>> /\ syms = 0
Next == /\ syms < MaxLen /\ syms' = syms + 1
        /\ \/ \E c \in Classes : bytes' = Append(bytes, c)
           \/ \E c \in PushImms : bytes' = bytes \o <<1>> \o [i \in 1..8 |-> c]
Spec == Init /\ [][Next]_<<bytes, syms>>

P == Parse(bytes)

Sane == TableSane

Unambiguous == P.ok => Serialise(P.ops) = bytes
\* also on failure, the ops parsed before the error are a parse of the prefix they cover
PrefixRoundTrip == LET n == Len(Serialise(P.ops)) IN SubSeq(bytes, 1, n) = Serialise(P.ops)
RoundTrip == P.ok => Parse(Serialise(P.ops)) = P

ErrorClasses ==
  ~P.ok =>
    LET at == Len(Serialise(P.ops)) + 1 IN       \* 1-based position of the offending opcode byte
    /\ at <= Len(bytes) /\ bytes[at] = P.byte
    /\ P.err = "InvalidOpcode"  <=> ~IsOpcode(bytes[at])
    /\ P.err = "NotEnoughBytes" <=> (IsOpcode(bytes[at]) /\ at + RowOf(bytes[at]).args > Len(bytes))

MappedIsParsed ==
  LET m == Map(bytes) IN
  /\ m.ok = P.ok
  /\ ~m.ok => m.err = P.err
  /\ m.ok => /\ Len(m.idx) = Len(P.ops)
             /\ \A i \in 0..Len(P.ops) :
                  LET o == OpAt(bytes, m.idx, i) IN
                  IF i < Len(P.ops) THEN o.some /\ o.op = P.ops[i + 1] ELSE ~o.some
             /\ \A i \in 1..Len(m.idx) : bytes[m.idx[i] + 1] = RowByShort(P.ops[i].n).opcode

ScanExact ==
  P.ok => \A mask \in SUBSET AllEffects :
            ScanAny(bytes, mask) <=> (Analyze(P.ops) \cap mask # {})
=============================================================================
