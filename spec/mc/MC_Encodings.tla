---------------------------- MODULE MC_Encodings ----------------------------
(***************************************************************************)
(* C06 / C17 / C18 on the design: the wire encodings of Encodings.tla.     *)
(*   RoundTrip*        decode o encode = id (predicates, mutation lists)   *)
(*   SizeIsLength      the reported encoded size is the real length        *)
(*   Truncated         every proper prefix of an encoding is rejected      *)
(*   *Injective        distinct values have distinct (pre-hash) encodings: *)
(*                     checked for ALL PAIRS of the scope                  *)
(*   DecoderTotal      the mutation decoders answer ok / typed error for   *)
(*                     EVERY word string of <= MaxStr words over           *)
(*                     {-1,0,1,2,3,5,WordMax} (a partial definition would  *)
(*                     make TLC fail), and what they accept re-encodes to  *)
(*                     a prefix-consistent value                           *)
(*   NodeEdgesDoc      the edge slice is the documented sub-range, empty   *)
(*                     for leaves                                          *)
(***************************************************************************)
EXTENDS Integers, Sequences, FiniteSets, TLC, Encodings

CONSTANT MaxStr
WMax == 127
AddrLen == 1

Es == {0, 1, LEAF}
NodeD == [es : Es, prog : {<<0>>, <<1>>}]
Preds == [nodes : UNION {[1..n -> NodeD] : n \in 0..2}, edges : UNION {[1..n -> {0, 1, 2}] : n \in 0..2}]
Ws == {0, 1}
Vecs == UNION {[1..n -> Ws] : n \in 0..2}
MutD == [key : Vecs, value : Vecs]
MutLists == UNION {[1..n -> MutD] : n \in 0..2}
Sols == [contract : {<<0>>, <<1>>}, predicate : {<<0>>}, pdata : UNION {[1..n -> {<<>>, <<1>>, <<1, 1>>}] : n \in 0..2},
         muts : UNION {[1..n -> [key : {<<>>, <<1>>}, value : {<<>>, <<1>>, <<0, 1>>}]] : n \in 0..1}]
Alphabet == {-1, 0, 1, 2, 3, 5, WMax}

VARIABLES kind, x
Init == \/ kind = "pred" /\ x \in Preds
        \/ kind = "muts" /\ x \in MutLists
        \/ kind = "sol" /\ x \in Sols
        \/ kind = "str" /\ x = <<>>
Next == /\ kind = "str" /\ Len(x) < MaxStr /\ \E a \in Alphabet : x' = Append(x, a)
        /\ UNCHANGED kind
Spec == Init /\ [][Next]_<<kind, x>>

Enc(p) == EncodePredicate(p).bytes

RoundTripPredicate == kind = "pred" => DecodePredicate(Enc(x), AddrLen) = [ok |-> TRUE, p |-> x]
SizeIsLength == kind = "pred" => EncodedSize(x, AddrLen) = Len(Enc(x))
Truncated == kind = "pred" => \A k \in 0..(Len(Enc(x)) - 1) : ~DecodePredicate(SubSeq(Enc(x), 1, k), AddrLen).ok
TrailingIgnored == kind = "pred" => DecodePredicate(Enc(x) \o <<7>>, AddrLen) = [ok |-> TRUE, p |-> x]
PredicateInjective == kind = "pred" => \A q \in Preds : q # x => Enc(q) # Enc(x)

NodeEdgesDoc ==
  kind = "pred" =>
    \A n \in 0..(Len(x.nodes) - 1) :
      LET r == NodeEdges(x, n) IN
      /\ x.nodes[n + 1].es = LEAF => r = [some |-> TRUE, es |-> <<>>]
      /\ r.some => \A i \in 1..Len(r.es) : r.es[i] = x.edges[x.nodes[n + 1].es + i]
      /\ (r.some /\ x.nodes[n + 1].es # LEAF) =>
           Len(r.es) = (IF n + 1 < Len(x.nodes) /\ x.nodes[n + 2].es # LEAF THEN x.nodes[n + 2].es ELSE Len(x.edges))
                       - x.nodes[n + 1].es
  /\ (kind = "pred" => ~NodeEdges(x, Len(x.nodes)).some)

RoundTripMutations == kind = "muts" => DecodeMutations(EncodeMutations(x)) = [ok |-> TRUE, ms |-> x]
MutationsInjective == kind = "muts" => \A q \in MutLists : q # x => EncodeMutations(q) # EncodeMutations(x)
SingleMutation == kind = "muts" => \A i \in 1..Len(x) : /\ DecodeMutation(EncodeMutation(x[i])) = [ok |-> TRUE, m |-> x[i]]
                                                        /\ EncodedMutationSize(x[i]) = Len(EncodeMutation(x[i]))

SolutionInjective == kind = "sol" => \A q \in Sols : q # x => SerSolution(q, WMax) # SerSolution(x, WMax)

DecoderTotal ==
  kind = "str" =>
    LET d == DecodeMutations(x)
        s == DecodeMutation(x) IN
    /\ d.ok \in BOOLEAN /\ s.ok \in BOOLEAN
    /\ s.ok => /\ EncodeMutation(s.m) = SubSeq(x, 1, EncodedMutationSize(s.m))     \* what was accepted is a prefix
               /\ EncodedMutationSize(s.m) <= Len(x)
    /\ d.ok => (x[1] = 0 /\ d.ms = <<>>) \/ (x[1] > 0 /\ EncodeMutationList(d.ms) = Tail(x))
=============================================================================
