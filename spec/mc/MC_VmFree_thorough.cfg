SPECIFICATION Spec
CONSTANT MaxSteps = 8
INVARIANT TypeOK
INVARIANT Bounds
CHECK_DEADLOCK FALSE
