SPECIFICATION Spec
INVARIANT KeyRangeDoc
INVARIANT ShortStack
CHECK_DEADLOCK FALSE
