----------------------------- MODULE MC_Checker -----------------------------
(***************************************************************************)
(* C01 / C03 (deferral) on the design: the operational two-pass evaluation *)
(* of one predicate (levels, index order inside a level, per-pass and      *)
(* cross-pass caches, run-mode filtering, failure collection) against the  *)
(* declarative reference of Checker.tla (each node once, on its parents'   *)
(* outputs in ascending parent order, deferred nodes on the post-state),   *)
(* for EVERY raw node/edge encoding with N nodes, E edges over node ids    *)
(* 0..N (N = a missing node) and every edge_start in 0..E or the leaf      *)
(* marker - all numberings are among them - x every placement of           *)
(* post-state reads x one misbehaving node x collect_all.                  *)
(* Every node appends a word to the memory it inherits and leaves are data *)
(* outputs, so the reported memories reveal the order and multiplicity of  *)
(* the concatenation.                                                      *)
(***************************************************************************)
EXTENDS Integers, Sequences, FiniteSets, TLC

CONSTANTS MaxN, MaxE

WordMax == 127
ShiftBits == 8
StackLimit == 40
MemLimit == 40
RepLimit == 2
MaxDepth == 1
GasMax == 100000
ChildGasShared == FALSE
CONSTANT Answer(_, _)
INSTANCE Checker

P(w) == [n |-> "PUSH", w |-> w]
O(n) == [n |-> n]

Body(n) == <<P(1), O("ALOC"), P(20 + n), O("SWAP"), O("STO"), P(10 + n)>>
PostRead == <<P(3), O("ALOC"), P(7), P(1), P(1), O("DUPF"), O("PKRNG"), O("POP")>>
\* the post read above: [addr] -> push key 7, key_len 1, count 1, copy addr -> PKRNG -> drop addr
Clear == <<P(0), O("RES"), O("DROP")>>

\* kinds: "n" normal (leaf: data output), "f" leaf ending in [0], "e" fails
Prog(n, isPost, kind) ==
  [bad |-> FALSE,
   ops |-> Body(n) \o (IF isPost THEN <<P(3), O("ALOC"), P(7), P(1), P(1), P(3), O("DUPF"), O("PKRNG"), O("POP")>> ELSE <<>>)
           \o (IF kind = "e" THEN <<P(1), O("PNCIF")>> ELSE <<>>)
           \o Clear \o <<P(IF kind = "f" THEN 0 ELSE 2)>>]
\* Non-leaves run the same program: what they leave ([2] resp. [0]) flows to their children.

VARIABLES n, es, edges, posts, badNode, badKind, all, ready
vars == <<n, es, edges, posts, badNode, badKind, all, ready>>

EsOpts(e) == (0..e) \cup {LEAF}
\* The encoding is chosen initially, the rest in one step (so that TLC's workers share the work);
\* the invariants speak about the states with ready = TRUE.
Init ==
  /\ n \in 1..MaxN
  /\ \E e \in 0..MaxE : /\ edges \in [1..e -> 0..n]
                        /\ es \in [1..n -> EsOpts(e)]
  /\ posts = {} /\ badNode = -1 /\ badKind = "n" /\ all = FALSE /\ ready = FALSE
Next ==
  /\ ~ready /\ ready' = TRUE
  /\ posts' \in SUBSET (0..(n - 1))
  /\ badNode' \in -1..(n - 1)
  /\ badKind' \in (IF badNode' = -1 THEN {"n"} ELSE {"f", "e"})
  /\ all' \in BOOLEAN
  /\ UNCHANGED <<n, es, edges>>
Spec == Init /\ [][Next]_vars

\* Second family (MC_Checker_dag4.cfg): every labelled DAG on 4 nodes (543 of them; all numberings
\* of every shape incl. diamonds, multiple roots, isolated nodes), encoded with running edge offsets
\* (no leaf markers: empty slices), x the same placements of post reads / misbehaving node.
Pairs4 == {p \in (0..3) \X (0..3) : p[1] # p[2]}
Acyclic4(G) == \A m \in 0..3 : m \notin ReachFrom(G, 0..3, {m}, {})
RECURSIVE SortSet(_)
SortSet(S) == IF S = {} THEN <<>> ELSE LET m == CHOOSE x \in S : \A y \in S : x <= y IN <<m>> \o SortSet(S \ {m})
KidsOf(G, i) == SortSet({j \in 0..3 : <<i, j>> \in G})
RECURSIVE KidsUpTo(_, _)
KidsUpTo(G, i) == IF i < 0 THEN <<>> ELSE KidsUpTo(G, i - 1) \o KidsOf(G, i)
InitDag4 ==
  /\ n = 4
  /\ \E G \in SUBSET Pairs4 :
       /\ Acyclic4(G)
       /\ edges = KidsUpTo(G, 3)
       /\ es = [i \in 1..4 |-> Len(KidsUpTo(G, i - 2))]
  /\ posts = {} /\ badNode = -1 /\ badKind = "n" /\ all = FALSE /\ ready = FALSE

Pred == [nodes |-> [i \in 1..n |-> [es |-> es[i], prog |-> i]], edges |-> edges]
Case == [sols |-> <<[contract |-> <<1, 2, 3, 4>>, pred |-> 1, predw |-> <<5, 6, 7, 8>>, pdata |-> <<>>, decl |-> <<>>]>>,
         preds |-> <<Pred>>,
         progs |-> [i \in 1..n |-> Prog(i - 1, (i - 1) \in posts, IF badNode = i - 1 THEN badKind ELSE "n")],
         pre |-> <<[c |-> <<1, 2, 3, 4>>, k |-> <<7>>, v |-> <<40>>]>>,
         all |-> all]
Sol == InitSols(Case)[1]
Post == <<[c |-> <<1, 2, 3, 4>>, k |-> <<7>>, v |-> <<41>>]>>

SeqBag(s) == [x \in {s[i] : i \in 1..Len(s)} |-> Cardinality({i \in 1..Len(s) : s[i] = x})]
SeqSet(s) == {s[i] : i \in 1..Len(s)}

\* level of a node = longest path from a root (numbering independent)
Max2(S) == CHOOSE x \in S : \A y \in S : y <= x
RECURSIVE Depth(_, _)
Depth(p, m) == IF Parents(p, m) = <<>> THEN 0
               ELSE 1 + Max2({Depth(p, Parents(p, m)[i]) : i \in 1..Len(Parents(p, m))})

\* operational pass vs reference phase over the node set `nodes`
PassMatches(op, ref, nodes) ==
  CASE op.k = "ok" ->
         /\ ref.failed = {} /\ ref.skipped = {} /\ ref.unsat = {}
         /\ op.gas = ref.gas                              \* every node exactly once
         /\ SeqBag(op.outs) = SeqBag(ref.outs)            \* inputs = concatenation in ascending parent order
    [] op.k = "unsat" ->
         /\ ref.failed = {}
         /\ SeqSet(op.nodes) = ref.unsat /\ Len(op.nodes) = Cardinality(ref.unsat)
    [] op.k = "prog" ->
         /\ ref.failed # {}
         /\ IF all
            THEN /\ ref.failed \subseteq SeqSet(op.nodes)          \* every root cause is reported
                 /\ SeqSet(op.nodes) \subseteq ref.failed \cup ref.skipped   \* the rest are consequences
            ELSE /\ Len(op.nodes) = 1
                 /\ op.nodes[1] \in ref.failed
                 /\ \A m \in ref.failed : Depth(Pred, op.nodes[1]) <= Depth(Pred, m)   \* earliest level
    [] OTHER -> FALSE

OutcomeIsReference ==
  ready =>
  LET op1 == PredicatePass(Case, Sol, "outputs", NoCache, <<>>) IN
  IF ~WellFormed(Pred)
  THEN op1.k = "graph"                 \* malformed / cyclic: rejected, nothing evaluated
  ELSE LET D == Deferred(Pred, Case.progs)
           r1 == RefPhase(Case, Sol, NodeSet(Pred) \ D, <<>>) IN
       /\ op1.k # "graph"
       /\ PassMatches(op1, r1, NodeSet(Pred) \ D)
       /\ op1.k = "ok" =>
            LET op2 == PredicatePass(Case, Sol, "checks", op1.cache, Post)
                r2 == RefPhase(Case, Sol, D, Post) IN
            PassMatches(op2, r2, D)

\* C03: the deferred set is exactly the post readers and everything that depends on them
DeferredIsDependents ==
  (ready /\ WellFormed(Pred)) =>
    LET D == Deferred(Pred, Case.progs)
        RECURSIVE Anc(_)
        Anc(m) == {m} \cup UNION {Anc(Parents(Pred, m)[i]) : i \in 1..Len(Parents(Pred, m))} IN
    D = {m \in NodeSet(Pred) : Anc(m) \cap posts # {}}
=============================================================================
