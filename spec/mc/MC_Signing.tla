----------------------------- MODULE MC_Signing -----------------------------
(***************************************************************************)
(* C19 on the symbolic model: for 2 keys, all contracts of <= MaxPreds     *)
(* predicates (out of 3; quick 2, thorough 4) and 2 salts, all orders:     *)
(*   SignRecover     recover(sign(c, sk)) = Pk(sk) and verification        *)
(*                   succeeds, whatever the predicate order                *)
(*   TamperDetected  after any change to the predicates or the salt the    *)
(*                   recovered key is not the signer's                     *)
(*   MalformedIsError a malformed signature is an error                    *)
(***************************************************************************)
EXTENDS Signing, TLC
CONSTANT MaxPreds
Keys == {"a", "b"}
PredSet == {"p1", "p2", "p3"}
Salts == {0, 1}
Contracts == [preds : UNION {[1..n -> PredSet] : n \in 0..MaxPreds}, salt : Salts]
VARIABLES c, sk
Init == c \in Contracts /\ sk \in Keys
Next == UNCHANGED <<c, sk>>
Spec == Init /\ [][Next]_<<c, sk>>

Perms(s) == {t \in [1..Len(s) -> PredSet] : Bag(t) = Bag(s)}
SignRecover ==
  \A order \in Perms(c.preds) :
    LET signed == [SignContract(c, sk) EXCEPT !.contract.preds = order] IN
    RecoverContract(signed) = [k |-> "key", key |-> Pk(sk)] /\ VerifyContract(signed)
TamperDetected ==
  \A d \in Contracts :
    Digest(d) # Digest(c) =>
      LET r == RecoverContract([contract |-> d, sig |-> Sign(sk, Digest(c))]) IN
      r.k = "error" \/ r.key # Pk(sk)
OtherSigner == \A k2 \in Keys : k2 # sk => RecoverContract(SignContract(c, k2)).key # Pk(sk)
MalformedIsError == RecoverContract([contract |-> c, sig |-> Malformed]).k = "error"
=============================================================================
