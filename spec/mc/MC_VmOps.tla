------------------------------ MODULE MC_VmOps ------------------------------
(***************************************************************************)
(* C08: the operational StepOp of VmOps.tla (written in the order the code *)
(* pops and checks) against a declarative table read off asm.yml           *)
(* (stack_in / stack_out, "leaves everything else unchanged", "fails       *)
(* instead of producing a result"), for EVERY stack of up to MaxLen words  *)
(* over the boundary values, several memories, with and without a parent   *)
(* memory, and every Stack / Pred / Alu / Memory / ParentMemory op.        *)
(* Limits are shrunk so that "at the limit" and "one above" are in scope.  *)
(***************************************************************************)
EXTENDS Integers, Sequences, FiniteSets, TLC

CONSTANTS MaxLen,   \* stacks of 0..MaxLen words are enumerated
          SLimit    \* the (shrunk) stack limit

WordMax == 7
ShiftBits == 4
StackLimit == SLimit
MemLimit == 6
RepLimit == 2
MaxDepth == 1
INSTANCE VmOps

V == {WordMin, -1, 0, 1, 2, 3, WordMax}
Stacks == UNION {[1..n -> V] : n \in 0..MaxLen}
Mems == {<<>>, <<5, 6>>, <<1, 2, 3, 4, 5, 6>>}
Pms == {<<>>, << <<5, 6, 7>> >>}

DocOps == {"PUSH","POP","DUP","DUPF","SWAP","SWAPI","SEL","SLTR","RES","LODS","STOS","DROP",
           "EQ","EQRA","GT","LT","GTE","LTE","AND","OR","NOT","BAND","BOR",
           "ADD","SUB","MUL","DIV","MOD","SHL","SHR","SHRI",
           "ALOC","FREE","LOD","STO","LODR","STOR","LODP","LODPR"}

VARIABLES st, mem, pm, opn
vars == <<st, mem, pm, opn>>
Init == st \in Stacks /\ mem \in Mems /\ pm \in Pms /\ opn \in DocOps
Next == UNCHANGED vars
Spec == Init /\ [][Next]_vars

-----------------------------------------------------------------------------
L == Len(st)
T(i) == st[L - i]                     \* T(0) is the top
Base(k) == SubSeq(st, 1, L - k)
NoDoc == [f |-> FALSE]
D(s, m) == [f |-> TRUE, st |-> s, mem |-> m]
DS(s) == D(s, mem)

\* result of a binary word function, or failure
Bin(r) == IF L >= 2 /\ r.ok THEN DS(Append(Base(2), r.v)) ELSE NoDoc

\* mathematical definitions (Words.tla's are checked against these by MC_Alu)
Pow2(n) == 2^n
MW == 2 * (WordMax + 1)
Uns(x) == IF x < 0 THEN x + MW ELSE x
Sig(u) == IF u > WordMax THEN u - MW ELSE u
Range(v) == IF InWord(v) THEN Ok(v) ELSE Err("range")
TruncDiv(a, b) == Sgn(a) * Sgn(b) * (Abs(a) \div Abs(b))
Bits(x) == {k \in 0..(ShiftBits - 1) : (Uns(x) \div Pow2(k)) % 2 = 1}
RECURSIVE SumPow(_)
SumPow(S) == IF S = {} THEN 0 ELSE LET k == CHOOSE k \in S : TRUE IN Pow2(k) + SumPow(S \ {k})

Doc ==
  CASE opn = "PUSH" -> IF L + 1 <= StackLimit THEN DS(Append(st, 3)) ELSE NoDoc
    [] opn = "POP"  -> IF L >= 1 THEN DS(Base(1)) ELSE NoDoc
    [] opn = "DUP"  -> IF L >= 1 /\ L + 1 <= StackLimit THEN DS(Append(st, T(0))) ELSE NoDoc
    [] opn = "SWAP" -> IF L >= 2 THEN DS(Base(2) \o <<T(0), T(1)>>) ELSE NoDoc
    [] opn = "DUPF" -> IF L >= 1 /\ T(0) \in 0..(L - 2) THEN DS(Append(Base(1), st[(L - 1) - T(0)])) ELSE NoDoc
    [] opn = "SWAPI" -> IF L >= 1 /\ T(0) \in 0..(L - 2)
                        THEN DS([i \in 1..(L - 1) |-> IF i = L - 1 THEN st[(L - 1) - T(0)]
                                                      ELSE IF i = (L - 1) - T(0) THEN st[L - 1] ELSE st[i]])
                        ELSE NoDoc
    [] opn = "SEL"  -> IF L >= 3 /\ T(0) \in {0, 1} THEN DS(Append(Base(3), IF T(0) = 1 THEN T(1) ELSE T(2))) ELSE NoDoc
    [] opn = "SLTR" -> IF L >= 2 /\ T(0) \in {0, 1} /\ T(1) >= 0 /\ 2 * T(1) <= L - 2
                       THEN LET n == T(1) IN
                            DS(Base(2 + 2 * n) \o (IF T(0) = 1 THEN SubSeq(st, L - 2 - n + 1, L - 2)
                                                   ELSE SubSeq(st, L - 2 - 2 * n + 1, L - 2 - n)))
                       ELSE NoDoc
    [] opn = "RES"  -> IF L >= 1 /\ T(0) >= 0 /\ (L - 1) + T(0) + 1 <= StackLimit
                       THEN DS(Base(1) \o [i \in 1..T(0) |-> 0] \o <<L - 1>>) ELSE NoDoc
    [] opn = "LODS" -> IF L >= 1 /\ T(0) \in 0..(L - 2) THEN DS(Append(Base(1), st[T(0) + 1])) ELSE NoDoc
    [] opn = "STOS" -> IF L >= 2 /\ T(0) \in 0..(L - 3) THEN DS([Base(2) EXCEPT ![T(0) + 1] = T(1)]) ELSE NoDoc
    [] opn = "DROP" -> IF L >= 1 /\ T(0) \in 0..(L - 1) THEN DS(Base(1 + T(0))) ELSE NoDoc
    [] opn = "EQ"   -> IF L >= 2 THEN Bin(Ok(IF T(1) = T(0) THEN 1 ELSE 0)) ELSE NoDoc
    [] opn = "GT"   -> IF L >= 2 THEN Bin(Ok(IF T(1) > T(0) THEN 1 ELSE 0)) ELSE NoDoc
    [] opn = "LT"   -> IF L >= 2 THEN Bin(Ok(IF T(1) < T(0) THEN 1 ELSE 0)) ELSE NoDoc
    [] opn = "GTE"  -> IF L >= 2 THEN Bin(Ok(IF T(1) >= T(0) THEN 1 ELSE 0)) ELSE NoDoc
    [] opn = "LTE"  -> IF L >= 2 THEN Bin(Ok(IF T(1) <= T(0) THEN 1 ELSE 0)) ELSE NoDoc
    [] opn = "AND"  -> IF L >= 2 THEN Bin(Ok(IF T(1) # 0 /\ T(0) # 0 THEN 1 ELSE 0)) ELSE NoDoc
    [] opn = "OR"   -> IF L >= 2 THEN Bin(Ok(IF T(1) # 0 \/ T(0) # 0 THEN 1 ELSE 0)) ELSE NoDoc
    [] opn = "NOT"  -> IF L >= 1 THEN DS(Append(Base(1), IF T(0) = 0 THEN 1 ELSE 0)) ELSE NoDoc
    [] opn = "BAND" -> IF L >= 2 THEN Bin(Ok(Sig(SumPow(Bits(T(1)) \cap Bits(T(0)))))) ELSE NoDoc
    [] opn = "BOR"  -> IF L >= 2 THEN Bin(Ok(Sig(SumPow(Bits(T(1)) \cup Bits(T(0)))))) ELSE NoDoc
    [] opn = "ADD"  -> IF L >= 2 THEN Bin(Range(T(1) + T(0))) ELSE NoDoc
    [] opn = "SUB"  -> IF L >= 2 THEN Bin(Range(T(1) - T(0))) ELSE NoDoc
    [] opn = "MUL"  -> IF L >= 2 THEN Bin(Range(T(1) * T(0))) ELSE NoDoc
    [] opn = "DIV"  -> IF L >= 2 /\ T(0) # 0 THEN Bin(Range(TruncDiv(T(1), T(0)))) ELSE NoDoc
    [] opn = "MOD"  -> IF L >= 2 /\ T(0) # 0 /\ ~(T(1) = WordMin /\ T(0) = -1)
                       THEN Bin(Ok(T(1) - TruncDiv(T(1), T(0)) * T(0))) ELSE NoDoc
    [] opn = "SHL"  -> IF L >= 2 /\ T(0) \in 0..(ShiftBits - 1) THEN Bin(Ok(Sig((Uns(T(1)) * Pow2(T(0))) % MW))) ELSE NoDoc
    [] opn = "SHR"  -> IF L >= 2 /\ T(0) \in 0..(ShiftBits - 1) THEN Bin(Ok(Sig(Uns(T(1)) \div Pow2(T(0))))) ELSE NoDoc
    [] opn = "SHRI" -> IF L >= 2 /\ T(0) \in 0..(ShiftBits - 1) THEN Bin(Ok(T(1) \div Pow2(T(0)))) ELSE NoDoc
    [] opn = "EQRA" -> IF L >= 1 /\ T(0) = 0 THEN DS(Append(Base(1), 1))
                       ELSE IF L >= 1 /\ T(0) > 0 /\ 2 * T(0) <= L - 1
                       THEN LET n == T(0) IN
                            DS(Append(Base(1 + 2 * n),
                                      IF SubSeq(st, L - 2 * n, L - 1 - n) = SubSeq(st, L - n, L - 1) THEN 1 ELSE 0))
                       ELSE NoDoc
    [] opn = "ALOC" -> IF L >= 1 /\ T(0) >= 0 /\ Len(mem) + T(0) <= MemLimit
                       THEN D(Append(Base(1), Len(mem)), mem \o [i \in 1..T(0) |-> 0]) ELSE NoDoc
    [] opn = "FREE" -> IF L >= 1 /\ T(0) \in 0..Len(mem) THEN D(Base(1), SubSeq(mem, 1, T(0))) ELSE NoDoc
    [] opn = "LOD"  -> IF L >= 1 /\ T(0) \in 0..(Len(mem) - 1) THEN DS(Append(Base(1), mem[T(0) + 1])) ELSE NoDoc
    [] opn = "STO"  -> IF L >= 2 /\ T(0) \in 0..(Len(mem) - 1) THEN D(Base(2), [mem EXCEPT ![T(0) + 1] = T(1)]) ELSE NoDoc
    [] opn = "LODR" -> IF L >= 2 /\ T(1) >= 0 /\ T(0) >= 0 /\ T(1) + T(0) <= Len(mem) /\ L - 2 + T(0) <= StackLimit
                       THEN DS(Base(2) \o SubSeq(mem, T(1) + 1, T(1) + T(0))) ELSE NoDoc
    [] opn = "STOR" -> IF L >= 2 /\ T(0) >= 0 /\ T(1) \in 0..(L - 2) /\ T(0) + T(1) <= Len(mem)
                       THEN LET a == T(0)
                                n == T(1) IN
                            D(Base(2 + n), [i \in 1..Len(mem) |-> IF i > a /\ i <= a + n THEN st[L - 2 - n + (i - a)] ELSE mem[i]])
                       ELSE NoDoc
    [] opn = "LODP" -> IF pm # <<>> /\ L >= 1 /\ T(0) \in 0..(Len(pm[1]) - 1) THEN DS(Append(Base(1), pm[1][T(0) + 1])) ELSE NoDoc
    [] opn = "LODPR" -> IF pm # <<>> /\ L >= 2 /\ T(1) >= 0 /\ T(0) >= 0 /\ T(1) + T(0) <= Len(pm[1]) /\ L - 2 + T(0) <= StackLimit
                        THEN DS(Base(2) \o SubSeq(pm[1], T(1) + 1, T(1) + T(0))) ELSE NoDoc

Vm0 == [pc |-> 4, st |-> st, mem |-> mem, pm |-> pm, rep |-> <<>>, halt |-> FALSE]
Env0 == [contract |-> <<1, 2, 3, 4>>, predicate |-> <<5, 6, 7, 1>>, pdata |-> <<>>, pex |-> {},
         resp |-> [ok |-> TRUE, vals |-> <<>>], orc |-> <<>>]
TheOp == IF opn = "PUSH" THEN [n |-> "PUSH", w |-> 3] ELSE [n |-> opn]

\* The operational step equals the documented one, fails exactly when the documentation gives no
\* result, touches nothing else, and stays within the bounds.
StepMatchesDoc ==
  LET r == StepOp(TheOp, Vm0, Env0)
      d == Doc IN
  IF d.f
  THEN /\ r.k = "ok"
       /\ r.vm = [Vm0 EXCEPT !.st = d.st, !.mem = d.mem]
       /\ r.ctl = CNext
       /\ WithinBounds(r.vm)
  ELSE r.k = "err"

(***************************************************************************)
(* EqSet, stated from the encoder's side: for any two lists of items, the  *)
(* op applied to their encodings yields 1 iff the SETS of items are equal. *)
(***************************************************************************)
Items == {<<>>, <<1>>, <<2>>, <<1, 2>>}
ItemLists == UNION {[1..n -> Items] : n \in 0..2}
RECURSIVE Enc(_)
Enc(items) == IF items = <<>> THEN <<>> ELSE Enc(Tail(items)) \o Head(items) \o <<Len(Head(items))>>
EncSet(items) == LET e == Enc(items) IN e \o <<Len(e)>>
EqSetDoc ==
  \A a \in ItemLists, b \in ItemLists :
    LET s == <<3>> \o EncSet(a) \o EncSet(b)
        r == OpEqSet(s) IN
    Len(s) <= 14 =>
      (r.ok /\ r.v = <<3, IF {a[i] : i \in 1..Len(a)} = {b[i] : i \in 1..Len(b)} THEN 1 ELSE 0>>)
=============================================================================
