SPECIFICATION Spec
CONSTANTS
  MaxSols = 3
  Answer <- StateAnswer
INVARIANT PermutationInvariant
INVARIANT AcceptedIsFunctional
CHECK_DEADLOCK FALSE
