SPECIFICATION Spec
CONSTANTS
  Configs <- AllConfigs
  Answer <- StateAnswer
INVARIANT Confluent
INVARIANT CachesPrivate
CHECK_DEADLOCK FALSE
