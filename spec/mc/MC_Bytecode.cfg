SPECIFICATION Spec
CONSTANT PushImms = {128}
CONSTANT MaxLen = 5
INVARIANT Sane
INVARIANT Unambiguous
INVARIANT PrefixRoundTrip
INVARIANT RoundTrip
INVARIANT ErrorClasses
INVARIANT MappedIsParsed
INVARIANT ScanExact
CHECK_DEADLOCK FALSE
