----------------------------- MODULE MC_KeyRange -----------------------------
(***************************************************************************)
(* C11: the four key-range reads.  The operational OpKeyRange of VmOps.tla *)
(* (operands popped in the order of state_read.rs) against the documented  *)
(* contract: the right view and contract are asked with exactly the popped *)
(* key and count; the answer is laid out as one [address, length] pair per *)
(* value followed by the values back to back; nothing else in memory       *)
(* changes, memory is never grown, the stack loses exactly the operands;   *)
(* answers that do not fit, invalid operands and state errors are errors.  *)
(* Scope: 4 ops x key length 0..2 (and broken length words) x counts x     *)
(* every address -1..m+1 x memory sizes {0,3,8} x every answer of 0..3     *)
(* values of 0..2 words, or a state error.                                 *)
(***************************************************************************)
EXTENDS Integers, Sequences, FiniteSets, TLC

WordMax == 127
ShiftBits == 8
StackLimit == 16
MemLimit == 10
RepLimit == 2
MaxDepth == 1
INSTANCE VmOps

Own == <<1, 2, 3, 4>>
Ext == <<5, 6, 7, 8>>
ValMenu == {<<>>, <<7>>, <<7, 8>>}
Answers == UNION {[1..k -> ValMenu] : k \in 0..3}
Keys == {<<>>, <<9>>, <<9, WordMax>>}
KlenFix == {0, -1, 5}          \* 0: the right length word; otherwise this (wrong) word instead

VARIABLES opn, key, klenfix, cnt, addr, m, ans, fail, ready
vars == <<opn, key, klenfix, cnt, addr, m, ans, fail, ready>>
Init == /\ opn \in {"KRNG", "KREX", "PKRNG", "PKREX"} /\ key \in Keys /\ klenfix \in KlenFix
        /\ cnt \in {-1, 0, 1, 3} /\ m \in {0, 3, 8}
        /\ addr = 0 /\ ans = <<>> /\ fail = FALSE /\ ready = FALSE
Next == /\ ~ready /\ ready' = TRUE
        /\ addr' \in -1..(m + 1) /\ ans' \in Answers /\ fail' \in BOOLEAN
        /\ UNCHANGED <<opn, key, klenfix, cnt, m>>
Spec == Init /\ [][Next]_vars

IsExt == opn \in {"KREX", "PKREX"}
Mem0 == [i \in 1..m |-> 50 + i]
Base == <<40, 41>>
KlenWord == IF klenfix = 0 THEN Len(key) ELSE klenfix
St0 == Base \o (IF IsExt THEN Ext ELSE <<>>) \o key \o <<KlenWord, cnt, addr>>
Vm0 == [pc |-> 3, st |-> St0, mem |-> Mem0, pm |-> <<>>, rep |-> <<>>, halt |-> FALSE]
Env0 == [contract |-> Own, predicate |-> <<0, 0, 0, 1>>, pdata |-> <<>>, pex |-> {},
         resp |-> IF fail THEN [ok |-> FALSE] ELSE [ok |-> TRUE, vals |-> ans], orc |-> <<>>]

RECURSIVE Sum(_)
Sum(vs) == IF vs = <<>> THEN 0 ELSE Len(Head(vs)) + Sum(Tail(vs))

OperandsOK == addr >= 0 /\ cnt >= 0 /\ klenfix = 0
K == Len(ans)
Total == 2 * K + Sum(ans)
Fits == K = 0 \/ addr + Total <= m
ValAddr(j) == addr + 2 * K + Sum(SubSeq(ans, 1, j - 1))

KeyRangeDoc ==
  ready =>
    LET r == StepOp([n |-> opn], Vm0, Env0) IN
    IF ~(OperandsOK /\ ~fail /\ Fits) THEN r.k = "err"
    ELSE /\ r.k = "ok" /\ r.ctl = CNext
         \* the exact request
         /\ r.req = [view |-> IF opn \in {"KRNG", "KREX"} THEN "pre" ELSE "post",
                     contract |-> IF IsExt THEN Ext ELSE Own, key |-> key, n |-> cnt]
         \* the stack loses exactly the operands
         /\ r.vm.st = Base
         \* memory is never grown
         /\ Len(r.vm.mem) = m
         \* one [address, length] pair per value, values back to back in order
         /\ \A j \in 1..K : /\ r.vm.mem[addr + 2 * (j - 1) + 1] = ValAddr(j)
                            /\ r.vm.mem[addr + 2 * (j - 1) + 2] = Len(ans[j])
                            /\ SubSeq(r.vm.mem, ValAddr(j) + 1, ValAddr(j) + Len(ans[j])) = ans[j]
         \* no other word changes
         /\ \A i \in 1..m : (K = 0 \/ i <= addr \/ i > addr + Total) => r.vm.mem[i] = Mem0[i]
         /\ r.vm.pm = <<>> /\ r.vm.rep = <<>> /\ r.vm.pc = 3

\* an operand that is missing altogether
ShortStack ==
  ready => \A n \in 0..(Len(St0) - Len(Base) - 1) :
             StepOp([n |-> opn], [Vm0 EXCEPT !.st = SubSeq(St0, Len(St0) - n + 1, Len(St0))], Env0).k = "err"
=============================================================================
