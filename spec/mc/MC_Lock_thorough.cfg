SPECIFICATION Spec
CONSTANTS
  Threads = {t1, t2, t3, t4}
  Locks = {k1, k2}
  Calls = 2
  Exclusive = TRUE
INVARIANT MutualExclusion
INVARIANT NoLostUpdate
INVARIANT FinalCount
INVARIANT ReturnsOwnValue
PROPERTY EveryCallReturns
CHECK_DEADLOCK FALSE
