SPECIFICATION Spec
CONSTANTS
  MaxN = 3
  MaxE = 3
  Answer <- StateAnswer
INVARIANT OutcomeIsReference
INVARIANT DeferredIsDependents
CHECK_DEADLOCK FALSE
