SPECIFICATION Spec
CONSTANT MaxPreds = 4
INVARIANT SignRecover
INVARIANT TamperDetected
INVARIANT OtherSigner
INVARIANT MalformedIsError
CHECK_DEADLOCK FALSE
