SPECIFICATION Spec
CONSTANT MaxStr = 5
INVARIANT RoundTripPredicate
INVARIANT SizeIsLength
INVARIANT Truncated
INVARIANT TrailingIgnored
INVARIANT PredicateInjective
INVARIANT NodeEdgesDoc
INVARIANT RoundTripMutations
INVARIANT MutationsInjective
INVARIANT SingleMutation
INVARIANT SolutionInjective
INVARIANT DecoderTotal
CHECK_DEADLOCK FALSE
