SPECIFICATION Spec
CONSTANTS MaxLen = 5 SLimit = 5
INVARIANT StepMatchesDoc
CHECK_DEADLOCK FALSE
