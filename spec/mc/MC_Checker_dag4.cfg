INIT InitDag4
NEXT Next
CONSTANTS
  MaxN = 4
  MaxE = 6
  Answer <- StateAnswer
INVARIANT OutcomeIsReference
INVARIANT DeferredIsDependents
CHECK_DEADLOCK FALSE
