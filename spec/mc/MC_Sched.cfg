SPECIFICATION Spec
CONSTANTS
  Configs <- QuickConfigs
  Answer <- StateAnswer
INVARIANT Confluent
INVARIANT CachesPrivate
CHECK_DEADLOCK FALSE
