SPECIFICATION Spec
CONSTANTS
  KeyLen = 1
  Answer <- StateAnswer
INVARIANT OverlayIsReference
INVARIANT PreNeverSeesMutations
INVARIANT Shape
CHECK_DEADLOCK FALSE
