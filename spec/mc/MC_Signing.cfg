SPECIFICATION Spec
INVARIANT SignRecover
INVARIANT TamperDetected
INVARIANT OtherSigner
INVARIANT MalformedIsError
CHECK_DEADLOCK FALSE
