SPECIFICATION Spec
CONSTANTS MaxLen = 4 SLimit = 4
INVARIANT StepMatchesDoc
CHECK_DEADLOCK FALSE
