SPECIFICATION Spec
CONSTANTS MaxLen = 0 SLimit = 16
INVARIANT EqSetDoc
CHECK_DEADLOCK FALSE
