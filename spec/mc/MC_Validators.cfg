SPECIFICATION Spec
INVARIANT SetDoc
INVARIANT EmptySetRejected
INVARIANT ContractDoc
INVARIANT SignedDoc
CHECK_DEADLOCK FALSE
