SPECIFICATION Spec
CONSTANTS
  KeyLen = 2
  Answer <- StateAnswer
INVARIANT OverlayIsReference
INVARIANT PreNeverSeesMutations
INVARIANT Shape
CHECK_DEADLOCK FALSE
