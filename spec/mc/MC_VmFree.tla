------------------------------ MODULE MC_VmFree ------------------------------
(***************************************************************************)
(* C05 on the design: the machine is driven by a FREE choice of the next   *)
(* operation (i.e. every op sequence up to MaxSteps), from an empty        *)
(* machine, with the limits shrunk so that they are reached:               *)
(*   TypeOK / Bounds  after every step all words are in range, the stack,  *)
(*                    memory, repeat stack and compute depth are within    *)
(*                    their limits;                                        *)
(*   totality         every op on every reachable state is either a step   *)
(*                    or a typed error - a partial operator in the         *)
(*                    specification would make TLC itself fail.            *)
(* Compute is taken as fork into one child machine that is driven the same *)
(* way (depth is bounded by MaxDepth).                                     *)
(***************************************************************************)
EXTENDS Integers, Sequences, FiniteSets, TLC

CONSTANT MaxSteps

WordMax == 127
ShiftBits == 8
StackLimit == 4
MemLimit == 4
RepLimit == 2
MaxDepth == 1
INSTANCE VmOps

Imm == {WordMin, -1, 0, 1, 2, 4, 5, WordMax}
Ops == {[n |-> x] : x \in PlainOpNames} \cup {[n |-> "PUSH", w |-> w] : w \in Imm}
Env0 == [contract |-> <<1, 2, 3, 4>>, predicate |-> <<5, 6, 7, 1>>, pdata |-> << <<1, 2>>, <<>> >>, pex |-> {<<1, 1, 1, 1>>},
         resp |-> [ok |-> TRUE, vals |-> << <<7>>, <<>> >>], orc |-> <<0, 0, 0, 0>>]

VARIABLES vm, steps, errs
vars == <<vm, steps, errs>>
Init == /\ vm = [pc |-> 0, st |-> <<>>, mem |-> <<>>, pm |-> <<>>, rep |-> <<>>, halt |-> FALSE]
        /\ steps = 0 /\ errs = 0

Step(op) ==
  /\ steps < MaxSteps
  /\ steps' = steps + 1
  /\ LET r == StepOp(op, vm, [Env0 EXCEPT !.orc = IF op.n = "VRFYED" THEN 1 ELSE IF op.n = "RSECP" THEN <<0, 0, 0, 0, 0>> ELSE <<0, 0, 0, 0>>]) IN
     IF r.k = "err" THEN errs' = 1 /\ vm' = vm
     ELSE /\ errs' = 0
          /\ vm' = CASE r.ctl.t = "pc" -> [r.vm EXCEPT !.pc = r.ctl.n]
                     [] OTHER -> [r.vm EXCEPT !.pc = vm.pc + 1]

\* Compute: fork into child 0 (the other children differ only in the index word)
Fork ==
  /\ steps < MaxSteps /\ steps' = steps + 1
  /\ IF Len(vm.st) >= 1 /\ vm.st[Len(vm.st)] >= 1 /\ Len(vm.pm) < MaxDepth /\ Len(vm.st) - 1 < StackLimit
     THEN /\ vm' = [pc |-> vm.pc + 1, st |-> Append(DropLast(vm.st, 1), 0), mem |-> <<>>,
                    pm |-> Append(vm.pm, vm.mem), rep |-> vm.rep, halt |-> FALSE]
          /\ errs' = 0
     ELSE errs' = 1 /\ vm' = vm

Next == Fork \/ \E op \in Ops : Step(op)
Spec == Init /\ [][Next]_vars

TypeOK == /\ vm.pc \in Int /\ vm.pc >= -WordMax - 1
          /\ \A i \in 1..Len(vm.rep) : InWord(vm.rep[i].c) /\ InWord(vm.rep[i].lim)
          /\ \A i \in 1..Len(vm.pm) : Len(vm.pm[i]) <= MemLimit
Bounds == WithinBounds(vm)
=============================================================================
