SPECIFICATION Spec
CONSTANT PushImms = {128, 1}
CONSTANT MaxLen = 6
INVARIANT Sane
INVARIANT Unambiguous
INVARIANT PrefixRoundTrip
INVARIANT RoundTrip
INVARIANT ErrorClasses
INVARIANT MappedIsParsed
INVARIANT ScanExact
CHECK_DEADLOCK FALSE
