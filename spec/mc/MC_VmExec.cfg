SPECIFICATION Spec
CONSTANTS
  Answer <- TableAnswer
  MaxLimit = 14
  Costs <- CostSetQuick
  ProgIds = {1, 2, 3, 4, 5, 6, 7, 8, 9, 10, 11, 12, 13}
INVARIANT Confluent
INVARIANT Bounds
INVARIANT GasWithinLimit
INVARIANT GasExact
PROPERTY OutOfGasBeforeEffect
PROPERTY Terminates
CHECK_DEADLOCK FALSE
