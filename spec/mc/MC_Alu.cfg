SPECIFICATION Spec
CONSTANT Bits = 5
INVARIANT AluDoc
INVARIANT PredDoc
CHECK_DEADLOCK FALSE
