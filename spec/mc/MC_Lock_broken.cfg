SPECIFICATION Spec
CONSTANTS
  Threads = {t1, t2, t3}
  Locks = {k1, k2}
  Calls = 2
  Exclusive = FALSE
INVARIANT MutualExclusion
INVARIANT NoLostUpdate
INVARIANT FinalCount
INVARIANT ReturnsOwnValue
CHECK_DEADLOCK FALSE
