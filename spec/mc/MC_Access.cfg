SPECIFICATION Spec
INVARIANT DataDoc
INVARIANT LenDoc
INVARIANT SlotsDoc
INVARIANT AddressDoc
INVARIANT ByteRule
INVARIANT PexInjective
CHECK_DEADLOCK FALSE
