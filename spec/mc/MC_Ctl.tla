------------------------------- MODULE MC_Ctl -------------------------------
(***************************************************************************)
(* C09: control flow, repeat loops and evaluation.  The operational        *)
(* exec loop (VmExec!Exec over VmOps!StepOp) against closed-form           *)
(* statements of what asm.yml documents:                                   *)
(*   - a repeat body runs max(n,1) times, the counter counts 0..n-1 upward *)
(*     or n..1 downward; nested loops resume at the right place;           *)
(*   - JumpIf moves the pc by the non-zero distance iff the condition is 1,*)
(*     conditions other than 0/1 are errors;                               *)
(*   - execution ends at Halt (pc stays at it) or when the pc leaves the   *)
(*     program; HaltIf / PanicIf; evaluation = top of the final stack.     *)
(* Every configuration below is one TLC state; the invariants are the      *)
(* documented outcomes.                                                    *)
(***************************************************************************)
EXTENDS Integers, Sequences, FiniteSets, TLC

WordMax == 127
ShiftBits == 8
StackLimit == 64
MemLimit == 6
RepLimit == 2
MaxDepth == 1
GasMax == 1000
ChildGasShared == FALSE
CONSTANT Answer(_, _)
INSTANCE VmExec

P(w) == [n |-> "PUSH", w |-> w]
O(n) == [n |-> n]
Env0 == [contract |-> <<1, 2, 3, 4>>, predicate |-> <<5, 6, 7, 1>>, pdata |-> <<>>, pex |-> {},
         resp |-> [ok |-> TRUE, vals |-> <<>>], orc |-> <<>>]
Vm0 == [pc |-> 0, st |-> <<>>, mem |-> <<>>, pm |-> <<>>, rep |-> <<>>, halt |-> FALSE]
AllOpNames == PlainOpNames \cup {"PUSH", "COM"}
Ctx(prog) == [prog |-> prog, env |-> Env0, cost |-> [n \in AllOpNames |-> 1], limit |-> 900, reads |-> <<>>]
Run(prog) == Exec(Vm0, 0, Ctx(prog))

Counts == {WordMin, -1, 0, 1, 2, 3}
Dirs == {-1, 0, 1, 2}
Dists == {WordMin, -3, -2, -1, 0, 1, 2, 3, WordMax}
Conds == {-1, 0, 1, 2}

VARIABLES kind, a, b, c, d
vars == <<kind, a, b, c, d>>
Init ==
  \/ kind = "loop"  /\ a \in Counts /\ b \in Dirs /\ c = 0 /\ d = 0
  \/ kind = "nest"  /\ a \in Counts /\ b \in Counts /\ c \in {0, 1} /\ d \in {0, 1}
  \/ kind = "jump"  /\ a \in Dists /\ b \in Conds /\ c \in 0..5 /\ d = 0
  \/ kind = "skip"  /\ a \in 1..4 /\ b \in {0, 1} /\ c = 0 /\ d = 0
  \/ kind = "halt"  /\ a \in 0..3 /\ b \in Conds /\ c \in {0, 1} /\ d = 0
  \/ kind = "eval"  /\ a \in {-1, 0, 1, 2} /\ b \in {0, 1} /\ c = 0 /\ d = 0
  \/ kind = "limit" /\ a \in 1..3 /\ b = 0 /\ c = 0 /\ d = 0
Next == UNCHANGED vars
Spec == Init /\ [][Next]_vars

Trips(n) == IF n >= 1 THEN n ELSE 1
\* counter values seen by the body
Counters(n, up) ==
  IF n >= 1 THEN [i \in 1..n |-> IF up THEN i - 1 ELSE n - i + 1]
  ELSE <<IF up THEN 0 ELSE n>>          \* loose in the property; this is what the code shows

RECURSIVE Flat(_)
Flat(ss) == IF ss = <<>> THEN <<>> ELSE Head(ss) \o Flat(Tail(ss))

LoopDoc ==
  kind = "loop" =>
    LET r == Run(<<P(a), P(b), O("REP"), O("REPC"), O("REPE"), P(9)>>) IN
    IF b \notin {0, 1} THEN r.k = "err" /\ r.vm.pc = 2
    ELSE /\ r.k = "ok"
         /\ r.vm.st = Counters(a, b = 1) \o <<9>>
         /\ r.vm.rep = <<>>
         /\ r.vm.pc = 6
         /\ r.gas = 3 + 2 * Trips(a) + 1

NestDoc ==
  kind = "nest" =>
    LET r == Run(<<P(a), P(c), O("REP"), P(b), P(d), O("REP"), O("REPC"), O("REPE"), O("REPC"), O("REPE"), P(7)>>)
        inner == Counters(b, d = 1)
        outer == Counters(a, c = 1) IN
    /\ r.k = "ok"
    /\ r.vm.st = Flat([i \in 1..Len(outer) |-> inner \o <<outer[i]>>]) \o <<7>>
    /\ r.gas = 3 + Trips(a) * (3 + 2 * Trips(b) + 2) + 1

\* JumpIf as a single step at program counter c
JumpDoc ==
  kind = "jump" =>
    LET v == [Vm0 EXCEPT !.pc = c, !.st = <<5, a, b>>]
        r == StepOp(O("JMPIF"), v, Env0) IN
    IF b \notin {0, 1} THEN r.k = "err"
    ELSE IF b = 0 THEN r.k = "ok" /\ r.ctl = CNext /\ r.vm.st = <<5>>
    ELSE IF a = 0 \/ a = WordMin \/ c + a < 0 THEN r.k = "err"
    ELSE r.k = "ok" /\ r.ctl = CPc(c + a) /\ r.vm.st = <<5>>

\* a forward jump by a skips exactly a-1 ops; past the end simply ends the program
SkipDoc ==
  kind = "skip" =>
    LET r == Run(<<P(a), P(b), O("JMPIF"), P(11), P(12), P(13)>>) IN
    /\ r.k = "ok"
    /\ r.vm.st = (IF b = 0 THEN <<11, 12, 13>> ELSE SubSeq(<<11, 12, 13>>, a, 3))
    /\ r.vm.pc = (IF b = 1 /\ a = 4 THEN 6 ELSE 6)

HaltDoc ==
  kind = "halt" =>
    \* a = position of the halting op among three pushes; c = 0: HLT, c = 1: HLTIF with condition b
    LET pushes == [i \in 1..3 |-> P(20 + i)]
        hop == IF c = 0 THEN <<O("HLT")>> ELSE <<P(b), O("HLTIF")>>
        prog == SubSeq(pushes, 1, a) \o hop \o SubSeq(pushes, a + 1, 3)
        r == Run(prog)
        seen == [i \in 1..a |-> 20 + i]
        all == <<21, 22, 23>> IN
    IF c = 0 THEN r.k = "ok" /\ r.vm.st = seen /\ r.vm.pc = a
    ELSE IF b \notin {0, 1} THEN r.k = "err" /\ r.vm.pc = a + 1
    ELSE IF b = 1 THEN r.k = "ok" /\ r.vm.st = seen /\ r.vm.pc = a + 1
    ELSE r.k = "ok" /\ r.vm.st = all /\ r.vm.pc = 5

EvalDoc ==
  kind = "eval" =>
    LET prog == IF b = 0 THEN <<P(3), P(a)>> ELSE <<P(a), O("POP")>>
        r == Eval(Vm0, 0, Ctx(prog)) IN
    IF b = 1 THEN r.k = "invalid"                       \* empty stack
    ELSE IF a = 1 THEN r = [k |-> "ok", b |-> TRUE]
    ELSE IF a = 0 THEN r = [k |-> "ok", b |-> FALSE]
    ELSE r.k = "invalid"

\* the repeat stack is bounded by RepLimit (= 2 here): the third nested Repeat fails
LimitDoc ==
  kind = "limit" =>
    LET one == <<P(1), P(1), O("REP")>>
        prog == Flat([i \in 1..a |-> one])
        r == Run(prog) IN
    IF a <= RepLimit THEN r.k = "ok" /\ Len(r.vm.rep) = a
    ELSE r.k = "err" /\ r.vm.pc = 3 * RepLimit + 2
=============================================================================
