------------------------------- MODULE MC_Alu -------------------------------
(***************************************************************************)
(* C08 (ALU part): the operational word arithmetic of Words.tla against    *)
(* mathematical integer arithmetic, for EVERY pair of words of a tiny      *)
(* two's-complement instance (Bits-bit words).  The declarative side never *)
(* uses the iterative definitions: shifts and bitwise ops are defined from *)
(* the unsigned value and powers of two.                                   *)
(***************************************************************************)
EXTENDS Integers, Sequences, FiniteSets, TLC

CONSTANT Bits
WordMax == 2^(Bits - 1) - 1
ShiftBits == Bits
INSTANCE Words

VARIABLES a, b
W == WordMin..WordMax

Init == a \in W /\ b \in (W \cup {Bits, Bits + 1, -Bits})
Next == UNCHANGED <<a, b>>
Spec == Init /\ [][Next]_<<a, b>>

M == 2^Bits
Unsigned(x) == IF x < 0 THEN x + M ELSE x
Signed(u) == IF u >= 2^(Bits - 1) THEN u - M ELSE u
Bit(x, k) == (Unsigned(x) \div 2^k) % 2

\* truncating quotient: the unique q with |a - q*b| < |b| and the remainder having a's sign (or 0)
IsTruncQuot(q) == LET r == a - q * b IN Abs(r) < Abs(b) /\ (r = 0 \/ Sgn(r) = Sgn(a))

Checked(r, v) == IF InWord(v) THEN r = Ok(v) ELSE ~r.ok

AluDoc ==
  /\ InWord(b) =>
       /\ Checked(AddW(a, b), a + b)
       /\ Checked(SubW(a, b), a - b)
       /\ Checked(MulW(a, b), a * b)
       /\ IF b = 0 \/ (a = WordMin /\ b = -1) THEN ~DivW(a, b).ok /\ ~ModW(a, b).ok
          ELSE /\ DivW(a, b).ok /\ IsTruncQuot(DivW(a, b).v)
               /\ ModW(a, b) = Ok(a - DivW(a, b).v * b)
       /\ BitAnd(a, b) = Signed(LET S == {k \in 0..(Bits - 1) : Bit(a, k) = 1 /\ Bit(b, k) = 1}
                                    F[T \in SUBSET S] == IF T = {} THEN 0 ELSE
                                         LET k == CHOOSE k \in T : TRUE IN 2^k + F[T \ {k}]
                                IN F[S])
       /\ BitOr(a, b) = Signed(LET S == {k \in 0..(Bits - 1) : Bit(a, k) = 1 \/ Bit(b, k) = 1}
                                   F[T \in SUBSET S] == IF T = {} THEN 0 ELSE
                                        LET k == CHOOSE k \in T : TRUE IN 2^k + F[T \ {k}]
                               IN F[S])
  /\ IF b >= 0 /\ b < Bits
     THEN /\ ShlW(a, b) = Ok(Signed((Unsigned(a) * 2^b) % M))
          /\ ShrW(a, b) = Ok(Signed(Unsigned(a) \div 2^b))
          /\ ShrIW(a, b) = Ok(a \div 2^b)            \* floor division = arithmetic shift
     ELSE ~ShlW(a, b).ok /\ ~ShrW(a, b).ok /\ ~ShrIW(a, b).ok

\* comparisons and logic yield 0/1
PredDoc == IsBoolW(B2W(a = b)) /\ IsBoolW(B2W(a > b)) /\ B2W(a >= b) + B2W(a < b) = 1
=============================================================================
