------------------------------- MODULE MC_Set -------------------------------
(***************************************************************************)
(* C04: a solution set is a set.  For every set of 2..MaxSols solutions    *)
(* (own / foreign contract, declared and computed mutations over two keys  *)
(* incl. deletions, a post-state reading leaf that reports what it saw)    *)
(* and EVERY permutation of it: if set validation accepts the set, the     *)
(* two-pass check gives the same verdict, the same gas, the same computed  *)
(* mutations per solution and the same post-state observations; and an     *)
(* accepted set proposes at most one value per contract and key.           *)
(***************************************************************************)
EXTENDS Integers, Sequences, FiniteSets, TLC

CONSTANT MaxSols

WordMax == 127
ShiftBits == 8
StackLimit == 60
MemLimit == 60
RepLimit == 2
MaxDepth == 1
GasMax == 100000
ChildGasShared == FALSE
CONSTANT Answer(_, _)
INSTANCE Checker

P(w) == [n |-> "PUSH", w |-> w]
O(n) == [n |-> n]
A == <<1, 2, 3, 4>>
B == <<5, 6, 7, 8>>

Body(n) == <<P(10 + n)>>
\* read 2 keys from key <<1>> of the own contract's post-state into fresh memory
PostRead == <<P(8), O("ALOC"), P(1), P(1), P(2), P(3), O("DUPF"), O("PKRNG"), O("POP")>>
Report(id) == <<P(-7), P(0), O("ALOC"), P(0), O("SWAP"), O("LODR"), P(id), P(-99), P(0), O("RES"), P(0), P(0), O("KRNG")>>
Clear == <<P(0), O("RES"), O("DROP")>>
RECURSIVE Pushes(_)
Pushes(ws) == IF ws = <<>> THEN <<>> ELSE <<P(Head(ws))>> \o Pushes(Tail(ws))
DataLeaf(words) == Clear \o <<P(0), O("FREE"), P(Len(words)), O("ALOC"), O("POP")>> \o Pushes(words)
                   \o <<P(Len(words)), P(0), O("STOR"), P(2)>>

Muts == {<<>>, <<[key |-> <<1>>, value |-> <<5>>]>>, <<[key |-> <<1>>, value |-> <<6>>]>>, <<[key |-> <<2>>, value |-> <<>>]>>}
Comp == {<<>>, <<[key |-> <<1>>, value |-> <<5>>]>>, <<[key |-> <<2>>, value |-> <<6>>]>>}
SolChoice == [c : {A, B}, decl : Muts, comp : Comp]

VARIABLES set, ready
Init == set = <<>> /\ ready = FALSE
Next == \/ /\ ~ready /\ Len(set) < MaxSols /\ \E s \in SolChoice : set' = Append(set, s) /\ ready' = FALSE
        \/ /\ ~ready /\ Len(set) >= 2 /\ ready' = TRUE /\ set' = set
Spec == Init /\ [][Next]_<<set, ready>>

\* predicate of solution i (identity id travels with the solution under permutation):
\*   node 0 (root) -> node 1 (data leaf: computed mutations);  node 2 (root, post read) -> node 3 (reporting leaf)
CaseOf(order) ==
  LET n == Len(order) IN
  [sols |-> [j \in 1..n |-> LET i == order[j] IN
               [contract |-> set[i].c, pred |-> j, predw |-> <<20 + i, 0, 0, 0>>, pdata |-> <<>>, decl |-> set[i].decl]],
   preds |-> [j \in 1..n |-> [nodes |-> <<[es |-> 0, prog |-> 4 * (j - 1) + 1], [es |-> LEAF, prog |-> 4 * (j - 1) + 2],
                                          [es |-> 1, prog |-> 4 * (j - 1) + 3], [es |-> LEAF, prog |-> 4 * (j - 1) + 4]>>,
                              edges |-> <<1, 3>>]],
   progs |-> [k \in 1..(4 * n) |->
               LET j == ((k - 1) \div 4) + 1
                   i == order[j]
                   node == (k - 1) % 4 IN
               [bad |-> FALSE,
                ops |-> CASE node = 0 -> Body(0)
                          [] node = 1 -> Body(1) \o DataLeaf(EncodeMutations(set[i].comp))
                          [] node = 2 -> Body(2) \o PostRead
                          [] node = 3 -> Body(3) \o Report(i) \o <<P(1)>>]],
   pre |-> <<[c |-> A, k |-> <<1>>, v |-> <<31>>], [c |-> B, k |-> <<2>>, v |-> <<32>>]>>,
   all |-> FALSE]

Perms(n) == {f \in [1..n -> 1..n] : \A a, b \in 1..n : f[a] = f[b] => a = b}
Id(n) == [j \in 1..n |-> j]

\* set validation on the declared mutations: one value per contract and key
Slots == {<<set[i].c, set[i].decl[j].key>> : i \in 1..Len(set), j \in {1}} \cap
         {<<set[i].c, set[i].decl[1].key>> : i \in {i \in 1..Len(set) : set[i].decl # <<>>}}
Accepted == \A a, b \in {i \in 1..Len(set) : set[i].decl # <<>>} :
              (set[a].c = set[b].c /\ set[a].decl[1].key = set[b].decl[1].key) => a = b

RECURSIVE FlattenL(_)
FlattenL(ss) == IF ss = <<>> THEN <<>> ELSE Head(ss) \o FlattenL(Tail(ss))
MarksOf(r) == LET qs == SelectSeq(FlattenL(r.log1) \o FlattenL(r.log2),
                                  LAMBDA q : q.n = 0 /\ q.key # <<>> /\ q.key[Len(q.key)] = -99) IN
              {qs[i].key : i \in 1..Len(qs)}

PermutationInvariant ==
  (ready /\ Accepted) =>
    LET n == Len(set)
        base == TwoPass(CaseOf(Id(n))) IN
    \A f \in Perms(n) :
      LET r == TwoPass(CaseOf(f)) IN
      /\ (r.k = "ok") = (base.k = "ok")
      /\ r.k = "ok" => /\ r.gas = base.gas
                       /\ \A j \in 1..n : r.sols[j].muts = base.sols[f[j]].muts
                       /\ MarksOf(r) = MarksOf(base)

\* an accepted set whose check succeeds proposes at most one value per contract and key
AcceptedIsFunctional ==
  (ready /\ Accepted) =>
    LET r == TwoPass(CaseOf(Id(Len(set)))) IN
    r.k = "ok" => \A a, b \in 1..Len(r.sols) : \A x \in 1..Len(r.sols[a].muts), y \in 1..Len(r.sols[b].muts) :
                    (r.sols[a].contract = r.sols[b].contract /\ r.sols[a].muts[x].key = r.sols[b].muts[y].key)
                      => (a = b /\ x = y)
=============================================================================
