//! Input-side guards for the compression map phi (DESIGN.md 4.1).
//!
//! `guard(op, pre-stack)` says whether executing `op` on the given (raw, 64-bit) operands is a
//! step on which phi commutes with the operation, i.e. whether the specification evaluated in the
//! compressed instance must produce phi(true result).  It is decided from the operands alone
//! (exact i128 arithmetic here, and a mirror of Words.tla for the compressed side) and never from
//! what the implementation returned.  A step that is guarded out ends the trace before it.

use crate::jv::{phi_plain, region, Region, WORD_MAX_C, WORD_MIN_C};

const W: i128 = WORD_MAX_C as i128;
const WMIN: i128 = WORD_MIN_C as i128;

/// Exact result over the integers (None = the operation fails).
fn exact(op: &str, a: i64, b: i64) -> Option<i128> {
    let (x, y) = (a as i128, b as i128);
    let inr = |r: i128| {
        if r >= i64::MIN as i128 && r <= i64::MAX as i128 {
            Some(r)
        } else {
            None
        }
    };
    match op {
        "ADD" => inr(x + y),
        "SUB" => inr(x - y),
        "MUL" => inr(x * y),
        "DIV" => {
            if y == 0 {
                None
            } else {
                inr(x / y)
            }
        }
        "MOD" => {
            if y == 0 || (a == i64::MIN && b == -1) {
                None
            } else {
                inr(x % y)
            }
        }
        "SHL" => {
            if !(0..64).contains(&b) {
                None
            } else {
                // two's complement wrap to 64 bits
                let r = (x << b) & ((1i128 << 64) - 1);
                Some(if r >= (1i128 << 63) { r - (1i128 << 64) } else { r })
            }
        }
        "SHR" => {
            if !(0..64).contains(&b) {
                None
            } else {
                let u = if x < 0 { x + (1i128 << 64) } else { x };
                let r = u >> b;
                Some(if r >= (1i128 << 63) { r - (1i128 << 64) } else { r })
            }
        }
        "SHRI" => {
            if !(0..64).contains(&b) {
                None
            } else {
                Some(x >> b)
            }
        }
        "BAND" => Some((a & b) as i128),
        "BOR" => Some((a | b) as i128),
        _ => unreachable!(),
    }
}

/// Mirror of Words.tla in the compressed instance (WordMax = 2^29-1, ShiftBits = 64).
fn compressed(op: &str, a: i128, b: i128) -> Option<i128> {
    let inw = |r: i128| if r >= WMIN && r <= W { Some(r) } else { None };
    match op {
        "ADD" => inw(a + b),
        "SUB" => inw(a - b),
        "MUL" => inw(a * b),
        "DIV" => {
            if b == 0 || (a == WMIN && b == -1) {
                None
            } else {
                Some(a / b)
            }
        }
        "MOD" => {
            if b == 0 || (a == WMIN && b == -1) {
                None
            } else {
                Some(a % b)
            }
        }
        "SHL" => {
            if !(0..64).contains(&b) {
                return None;
            }
            let modulus = 2 * (W + 1);
            let mut v = a;
            for _ in 0..b {
                if v == 0 {
                    break;
                }
                v *= 2;
                if v > W {
                    v -= modulus
                } else if v < WMIN {
                    v += modulus
                }
            }
            Some(v)
        }
        "SHRI" => {
            if !(0..64).contains(&b) {
                None
            } else {
                Some(a >> b.min(100))
            }
        }
        "SHR" => {
            if !(0..64).contains(&b) {
                None
            } else if a >= 0 || b == 0 {
                Some(a >> b)
            } else {
                Some(((W + 1) + (a >> 1)) >> (b - 1))
            }
        }
        "BAND" => Some(a & b),
        "BOR" => Some(a | b),
        _ => unreachable!(),
    }
}

/// Is `op` applied to operands (a, b) a step on which phi commutes?
pub fn arith_guard(op: &str, a: i64, b: i64) -> bool {
    let (Some(pa), Some(pb)) = (phi_plain(a), phi_plain(b)) else {
        return false; // arithmetic on atoms is never emitted
    };
    let ex = exact(op, a, b);
    let co = compressed(op, pa as i128, pb as i128);
    match (ex, co) {
        (None, None) => true,
        (Some(r), Some(c)) => {
            let r = r as i64;
            match phi_plain(r) {
                Some(p) => p as i128 == c,
                None => false,
            }
        }
        _ => false,
    }
}

/// Guard for one step of the VM: `st` is the raw stack before the op.
pub fn step_guard(op: &str, st: &[i64]) -> bool {
    match op {
        "ADD" | "SUB" | "MUL" | "DIV" | "MOD" | "SHL" | "SHR" | "SHRI" | "BAND" | "BOR" => {
            if st.len() < 2 {
                return true; // fails on both sides for lack of operands
            }
            arith_guard(op, st[st.len() - 2], st[st.len() - 1])
        }
        _ => true,
    }
}

/// Is the word outside phi's plain domain?
pub fn is_atom(v: i64) -> bool {
    region(v) == Region::Mid
}

#[cfg(test)]
mod tests {
    use super::*;
    #[test]
    fn guards() {
        assert!(arith_guard("ADD", i64::MAX, 1));
        assert!(arith_guard("ADD", 5, 7));
        assert!(arith_guard("MUL", i64::MAX, 2));
        assert!(arith_guard("MUL", i64::MIN, -1));
        assert!(!arith_guard("MUL", 1 << 20, 1 << 20));
        assert!(arith_guard("DIV", i64::MIN, -1));
        assert!(!arith_guard("DIV", i64::MAX, 7));
        assert!(arith_guard("DIV", i64::MAX - 3, i64::MAX - 5));
        assert!(arith_guard("MOD", i64::MIN, i64::MAX));
        assert!(arith_guard("SHR", -2, 1));
        assert!(!arith_guard("SHR", -2, 5));
        assert!(arith_guard("SHRI", -2, 1));
        assert!(arith_guard("SHL", 0, 63));
        assert!(!arith_guard("SHL", 1, 63));
        assert!(arith_guard("SHL", 3, 4));
    }
}
