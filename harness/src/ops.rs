//! Names of operations as used by the specification (the `short` names of asm.yml, or the
//! upper-cased name where asm.yml declares none).

use crate::jv::{js, J};
use essential_asm as asm;
use essential_asm::Op;

pub fn name(op: &Op) -> &'static str {
    use asm::*;
    match op {
        Op::Stack(s) => match s {
            Stack::Push(_) => "PUSH",
            Stack::Pop => "POP",
            Stack::Dup => "DUP",
            Stack::DupFrom => "DUPF",
            Stack::Swap => "SWAP",
            Stack::SwapIndex => "SWAPI",
            Stack::Select => "SEL",
            Stack::SelectRange => "SLTR",
            Stack::Repeat => "REP",
            Stack::RepeatEnd => "REPE",
            Stack::Reserve => "RES",
            Stack::Load => "LODS",
            Stack::Store => "STOS",
            Stack::Drop => "DROP",
        },
        Op::Pred(p) => match p {
            Pred::Eq => "EQ",
            Pred::EqRange => "EQRA",
            Pred::Gt => "GT",
            Pred::Lt => "LT",
            Pred::Gte => "GTE",
            Pred::Lte => "LTE",
            Pred::And => "AND",
            Pred::Or => "OR",
            Pred::Not => "NOT",
            Pred::EqSet => "EQST",
            Pred::BitAnd => "BAND",
            Pred::BitOr => "BOR",
        },
        Op::Alu(a) => match a {
            Alu::Add => "ADD",
            Alu::Sub => "SUB",
            Alu::Mul => "MUL",
            Alu::Div => "DIV",
            Alu::Mod => "MOD",
            Alu::Shl => "SHL",
            Alu::Shr => "SHR",
            Alu::ShrI => "SHRI",
        },
        Op::Access(a) => match a {
            Access::ThisAddress => "THIS",
            Access::ThisContractAddress => "THISC",
            Access::RepeatCounter => "REPC",
            Access::PredicateData => "DATA",
            Access::PredicateDataLen => "DLEN",
            Access::PredicateDataSlots => "DSLT",
            Access::PredicateExists => "PEX",
        },
        Op::Crypto(c) => match c {
            Crypto::Sha256 => "SHA2",
            Crypto::VerifyEd25519 => "VRFYED",
            Crypto::RecoverSecp256k1 => "RSECP",
        },
        Op::TotalControlFlow(t) => match t {
            TotalControlFlow::Halt => "HLT",
            TotalControlFlow::HaltIf => "HLTIF",
            TotalControlFlow::JumpIf => "JMPIF",
            TotalControlFlow::PanicIf => "PNCIF",
        },
        Op::Memory(m) => match m {
            Memory::Alloc => "ALOC",
            Memory::Free => "FREE",
            Memory::Load => "LOD",
            Memory::Store => "STO",
            Memory::LoadRange => "LODR",
            Memory::StoreRange => "STOR",
        },
        Op::ParentMemory(m) => match m {
            ParentMemory::Load => "LODP",
            ParentMemory::LoadRange => "LODPR",
        },
        Op::StateRead(s) => match s {
            StateRead::KeyRange => "KRNG",
            StateRead::KeyRangeExtern => "KREX",
            StateRead::PostKeyRange => "PKRNG",
            StateRead::PostKeyRangeExtern => "PKREX",
        },
        Op::Compute(c) => match c {
            Compute::Compute => "COM",
            Compute::ComputeEnd => "COME",
        },
    }
}

/// Every operation without immediates, in opcode order.
pub fn all_plain() -> Vec<Op> {
    use asm::*;
    vec![
        Stack::Pop.into(),
        Stack::Dup.into(),
        Stack::DupFrom.into(),
        Stack::Swap.into(),
        Stack::SwapIndex.into(),
        Stack::Select.into(),
        Stack::SelectRange.into(),
        Stack::Repeat.into(),
        Stack::RepeatEnd.into(),
        Stack::Reserve.into(),
        Stack::Load.into(),
        Stack::Store.into(),
        Stack::Drop.into(),
        Pred::Eq.into(),
        Pred::EqRange.into(),
        Pred::Gt.into(),
        Pred::Lt.into(),
        Pred::Gte.into(),
        Pred::Lte.into(),
        Pred::And.into(),
        Pred::Or.into(),
        Pred::Not.into(),
        Pred::EqSet.into(),
        Pred::BitAnd.into(),
        Pred::BitOr.into(),
        Alu::Add.into(),
        Alu::Sub.into(),
        Alu::Mul.into(),
        Alu::Div.into(),
        Alu::Mod.into(),
        Alu::Shl.into(),
        Alu::Shr.into(),
        Alu::ShrI.into(),
        Access::ThisAddress.into(),
        Access::ThisContractAddress.into(),
        Access::RepeatCounter.into(),
        Access::PredicateData.into(),
        Access::PredicateDataLen.into(),
        Access::PredicateDataSlots.into(),
        Access::PredicateExists.into(),
        Crypto::Sha256.into(),
        Crypto::VerifyEd25519.into(),
        Crypto::RecoverSecp256k1.into(),
        TotalControlFlow::Halt.into(),
        TotalControlFlow::HaltIf.into(),
        TotalControlFlow::JumpIf.into(),
        TotalControlFlow::PanicIf.into(),
        Memory::Alloc.into(),
        Memory::Free.into(),
        Memory::Load.into(),
        Memory::Store.into(),
        Memory::LoadRange.into(),
        Memory::StoreRange.into(),
        ParentMemory::Load.into(),
        ParentMemory::LoadRange.into(),
        StateRead::KeyRange.into(),
        StateRead::KeyRangeExtern.into(),
        StateRead::PostKeyRange.into(),
        StateRead::PostKeyRangeExtern.into(),
        Compute::Compute.into(),
        Compute::ComputeEnd.into(),
    ]
}

pub fn by_name(n: &str) -> Option<Op> {
    all_plain().into_iter().find(|o| name(o) == n)
}

pub fn push(w: i64) -> Op {
    asm::Stack::Push(w).into()
}

/// JSON form of an op for the specification.
pub fn op_json(op: &Op) -> J {
    match op {
        Op::Stack(asm::Stack::Push(w)) => J::O(vec![("n", js("PUSH")), ("w", J::W(*w))]),
        _ => J::O(vec![("n", js(name(op)))]),
    }
}

pub fn prog_json(ops: &[Op]) -> J {
    J::A(ops.iter().map(op_json).collect())
}

/// Parse ops from the raw replay form.
pub fn op_from_raw(v: &serde_json::Value) -> Option<Op> {
    let n = v.get("n")?.as_str()?;
    if n == "PUSH" {
        Some(push(v.get("w")?.as_i64()?))
    } else {
        by_name(n)
    }
}
