//! Run a program on the real VM under observation and turn what happened into the event
//! sequence that spec/trace/TraceVm.tla validates.

use crate::cw;
use crate::jv::{ji, js, jw, jww, J};
use crate::obs::{self, addr_words, Ev, Read, Snap, View};
use crate::ops::{self, op_json, prog_json};
use essential_asm::Op;
use essential_types::{solution::Solution, ContentAddress, PredicateAddress};
use essential_vm::{error::OpError, Access, BytecodeMapped, GasLimit, Vm};
use sha2::Digest;
use std::collections::BTreeMap;
use std::sync::atomic::Ordering;
use std::sync::{Arc, Mutex};

#[derive(Clone, Debug)]
pub struct Cost {
    pub default: u64,
    pub table: BTreeMap<&'static str, u64>,
}
impl Cost {
    pub fn uniform(c: u64) -> Self {
        Cost { default: c, table: BTreeMap::new() }
    }
    pub fn of(&self, op: &Op) -> u64 {
        *self.table.get(ops::name(op)).unwrap_or(&self.default)
    }
}

#[derive(Clone, Copy, Debug, PartialEq)]
pub enum How {
    Ops,
    /// `Vm::eval_ops`: execution followed by the boolean extraction
    EvalOps,
    /// `Vm::exec_ops` itself (not the guarded operation access)
    ExecOps,
    BytecodeOwned,
    BytecodeBorrowed,
}

#[derive(Clone, Debug)]
pub struct RunCfg {
    pub prog: Vec<Op>,
    pub vm0: Snap,
    pub sols: Vec<Solution>,
    pub idx: usize,
    pub pre: View,
    pub post: View,
    pub cost: Cost,
    pub limit: u64,
    pub how: How,
    /// A Compute whose breadth exceeds this is not started (the run is reported infeasible).
    pub max_breadth: i64,
}

impl RunCfg {
    pub fn simple(prog: Vec<Op>) -> Self {
        RunCfg {
            prog,
            vm0: Snap::default(),
            sols: vec![default_solution()],
            idx: 0,
            pre: View::empty("pre"),
            post: View::empty("post"),
            cost: Cost::uniform(1),
            limit: u64::MAX,
            how: How::Ops,
            max_breadth: 64,
        }
    }
}

pub fn default_solution() -> Solution {
    Solution {
        predicate_to_solve: PredicateAddress {
            contract: ContentAddress(small_addr(1001)),
            predicate: ContentAddress(small_addr(2001)),
        },
        predicate_data: vec![],
        state_mutations: vec![],
    }
}

/// A 32-byte address whose four words are the small numbers base..base+3.
pub fn small_addr(base: i64) -> [u8; 32] {
    let mut out = [0u8; 32];
    for i in 0..4 {
        out[i * 8..(i + 1) * 8].copy_from_slice(&(base + i as i64).to_be_bytes());
    }
    out
}

#[derive(Clone, Debug, PartialEq)]
pub enum Outcome {
    Ok(u64),
    /// top-level out-of-gas at pc
    Oog(usize),
    /// any other error at pc
    Err(usize, String),
    /// the code under test panicked
    Panic(String),
    /// the harness refused to start a Compute of excessive breadth
    Infeasible,
}

/// Operation access that refuses to hand out a `Compute` whose breadth (the word on top of the
/// stack of the VM about to execute it, as last reported by the observer on this thread) exceeds
/// the cap: a Compute over 2^63 indices is not a bounded computation (finding F9).
#[derive(Clone)]
struct GuardedOps {
    ops: Arc<Vec<Op>>,
    cap: i64,
}
impl essential_vm::OpAccess for GuardedOps {
    type Op = Op;
    type Error = essential_asm::FromBytesError;
    fn op_access(&self, index: usize) -> Option<Result<Op, Self::Error>> {
        let op = *self.ops.get(index)?;
        if ops::name(&op) == "COM" && obs::last_top() > self.cap {
            // remember it: the refusal may surface wrapped in a child's error, and a run the guard
            // interfered with is not a run of the code under test
            GUARD_TRIPPED.store(true, Ordering::SeqCst);
            return Some(Err(essential_asm::FromBytesError::NotEnoughBytes(essential_asm::NotEnoughBytesError)));
        }
        Some(Ok(op))
    }
}

pub struct RunOut {
    /// for an out-of-gas outcome: the gas the error reports as spent so far
    pub oog_spent: Option<u64>,
    /// result of the boolean extraction when run through eval: "t", "f" or "inv"
    pub eval: Option<&'static str>,
    pub outcome: Outcome,
    pub fin: Snap,
    /// (seq, vm id, event)
    pub evs: Vec<(u64, u64, Ev)>,
}

static RUN_LOCK: Mutex<()> = Mutex::new(());
static GUARD_TRIPPED: std::sync::atomic::AtomicBool = std::sync::atomic::AtomicBool::new(false);

fn classify<E: std::fmt::Debug>(e: &OpError<E>) -> String {
    // the error's variant path, two levels deep: `Stack(Empty)` -> "Stack.Empty"; the payload of a
    // state error is the view's own value, and is not part of the kind
    let s = format!("{:?}", e);
    let mut toks = s.split(|c: char| !c.is_alphanumeric()).filter(|t| !t.is_empty());
    let first = toks.next().unwrap_or("").to_string();
    if first == "StateRead" {
        return first;
    }
    match toks.next() {
        Some(t) if t.chars().next().map(|c| c.is_ascii_uppercase()).unwrap_or(false) => format!("{first}.{t}"),
        _ => first,
    }
}

/// Execute on the real VM with the observer recording every op of every VM.
pub fn run_traced(cfg: &RunCfg) -> RunOut {
    if cfg.how != How::Ops {
        // learn feasibility from a guarded run first
        let pre = run_traced(&RunCfg { how: How::Ops, ..cfg.clone() });
        if pre.outcome == Outcome::Infeasible {
            return pre;
        }
    }
    let mut vm = obs::build_vm(&cfg.vm0);
    run_traced_on(cfg, &mut vm)
}

/// Like `run_traced`, but continues an existing machine (whatever state an earlier call left it
/// in); `cfg.vm0` must be a snapshot of `vm`.
pub fn run_traced_on(cfg: &RunCfg, vm: &mut Vm) -> RunOut {
    let _g = RUN_LOCK.lock().unwrap_or_else(|e| e.into_inner());
    let rec = obs::recorder();
    rec.take();
    obs::drain_reads();
    rec.enabled.store(true, Ordering::SeqCst);
    GUARD_TRIPPED.store(false, Ordering::SeqCst);
    let access = Access::new(Arc::new(cfg.sols.clone()), cfg.idx as u16);
    let state = (cfg.pre.clone(), cfg.post.clone());
    let cost = cfg.cost.clone();
    let costf = move |op: &Op| cost.of(op);
    let limit = GasLimit { per_yield: GasLimit::DEFAULT_PER_YIELD, total: cfg.limit };
    let mut eval: Option<&'static str> = None;
    let res = std::panic::catch_unwind(std::panic::AssertUnwindSafe(|| match cfg.how {
        How::ExecOps => vm.exec_ops(&cfg.prog, access, &state, &costf, limit),
        How::EvalOps => match vm.eval_ops(&cfg.prog, access, &state, &costf, limit) {
            Ok(b) => {
                eval = Some(if b { "t" } else { "f" });
                Ok(0)
            }
            Err(essential_vm::error::EvalError::InvalidEvaluation(_)) => {
                eval = Some("inv");
                Ok(0)
            }
            Err(essential_vm::error::EvalError::Exec(e)) => Err(e),
        },
        How::Ops => {
            let oa = GuardedOps { ops: Arc::new(cfg.prog.clone()), cap: cfg.max_breadth };
            vm.exec(access, &state, oa, &costf, limit)
        }
        How::BytecodeOwned => {
            let mapped: BytecodeMapped<Vec<u8>> = cfg.prog.iter().copied().collect();
            vm.exec_bytecode(&mapped, access, &state, &costf, limit)
        }
        How::BytecodeBorrowed => {
            let bytes: Vec<u8> = essential_asm::to_bytes(cfg.prog.iter().copied()).collect();
            let mapped = BytecodeMapped::try_from(&bytes[..]).expect("valid bytecode");
            vm.exec_bytecode(&mapped, access, &state, &costf, limit)
        }
    }));
    rec.enabled.store(false, Ordering::SeqCst);
    let evs = rec.take();
    let oog_spent = match &res {
        Ok(Err(e)) => match &e.1 {
            OpError::OutOfGas(o) => Some(o.spent),
            _ => None,
        },
        _ => None,
    };
    let outcome = match res {
        Ok(Ok(_)) if cfg.how == How::EvalOps => {
            // eval does not return the gas: take it from the top-level VM's exit event
            let top = evs.iter().map(|e| e.1).min().unwrap_or(0);
            let g = evs.iter().rev().find_map(|e| match &e.2 {
                Ev::Exit { gas, .. } if e.1 == top => Some(*gas),
                _ => None,
            });
            Outcome::Ok(g.unwrap_or(0))
        }
        _ if GUARD_TRIPPED.load(Ordering::SeqCst) => Outcome::Infeasible,
        Ok(Ok(g)) => Outcome::Ok(g),
        Ok(Err(e)) => match &e.1 {
            OpError::OutOfGas(_) => Outcome::Oog(e.0),
            OpError::FromBytes(_) => Outcome::Infeasible,
            other => Outcome::Err(e.0, classify(other)),
        },
        Err(p) => {
            let msg = p
                .downcast_ref::<String>()
                .cloned()
                .or_else(|| p.downcast_ref::<&str>().map(|s| s.to_string()))
                .unwrap_or_else(|| "panic".into());
            Outcome::Panic(msg)
        }
    };
    RunOut { oog_spent, eval, outcome, fin: obs::snap(vm), evs }
}

// ---------------------------------------------------------------------------------------------
// Oracles for the uninterpreted parts of the environment

/// Hashes of every solution's predicate data + address, as 4-word tuples.
pub fn pex_hashes(sols: &[Solution]) -> Vec<[i64; 4]> {
    sols.iter()
        .map(|s| {
            let mut bytes = vec![];
            for slot in &s.predicate_data {
                bytes.extend_from_slice(&(slot.len() as i64).to_be_bytes());
                for w in slot {
                    bytes.extend_from_slice(&w.to_be_bytes());
                }
            }
            bytes.extend_from_slice(&s.predicate_to_solve.contract.0);
            bytes.extend_from_slice(&s.predicate_to_solve.predicate.0);
            let h: [u8; 32] = sha2::Sha256::digest(&bytes).into();
            addr_words(&h)
        })
        .collect()
}

fn words_to_bytes(ws: &[i64]) -> Vec<u8> {
    ws.iter().flat_map(|w| w.to_be_bytes()).collect()
}

/// What the crypto primitive answers for the op about to execute on stack `st`
/// (None: the op fails before reaching the primitive, the oracle is irrelevant).
pub fn crypto_oracle(op: &str, st: &[i64]) -> Option<J> {
    let pop_bytes = |st: &[i64]| -> Option<(Vec<u8>, usize)> {
        let n = *st.last()?;
        if n < 0 {
            return None;
        }
        let n = n as usize;
        let nw = n.div_ceil(8);
        if nw > st.len() - 1 {
            return None;
        }
        let ws = &st[st.len() - 1 - nw..st.len() - 1];
        let mut b = words_to_bytes(ws);
        b.truncate(n);
        Some((b, 1 + nw))
    };
    match op {
        "SHA2" => {
            let (b, _) = pop_bytes(st)?;
            let h: [u8; 32] = sha2::Sha256::digest(&b).into();
            Some(jw(&addr_words(&h)))
        }
        "VRFYED" => {
            if st.len() < 12 {
                return None;
            }
            let key = words_to_bytes(&st[st.len() - 4..]);
            let sig = words_to_bytes(&st[st.len() - 12..st.len() - 4]);
            let (data, _) = pop_bytes(&st[..st.len() - 12])?;
            use ed25519_dalek::{Signature, Verifier, VerifyingKey};
            let kb: [u8; 32] = key.try_into().unwrap();
            let sb: [u8; 64] = sig.try_into().unwrap();
            match VerifyingKey::from_bytes(&kb) {
                Err(_) => Some(J::I(-1)),
                Ok(k) => Some(J::I(k.verify(&data, &Signature::from_bytes(&sb)).is_ok() as i64)),
            }
        }
        "RSECP" => {
            if st.len() < 13 {
                return None;
            }
            let rid = st[st.len() - 1];
            if !(0..=3).contains(&rid) {
                return None;
            }
            let sig = words_to_bytes(&st[st.len() - 9..st.len() - 1]);
            let hash = words_to_bytes(&st[st.len() - 13..st.len() - 9]);
            use secp256k1::{
                ecdsa::{RecoverableSignature, RecoveryId},
                Message, Secp256k1,
            };
            let rid = RecoveryId::try_from(rid as i32).ok()?;
            let Ok(rs) = RecoverableSignature::from_compact(&sig, rid) else {
                return Some(J::A(vec![]));
            };
            let hb: [u8; 32] = hash.try_into().unwrap();
            let msg = Message::from_digest(hb);
            match Secp256k1::new().recover_ecdsa(&msg, &rs) {
                Ok(pk) => {
                    let ser = pk.serialize();
                    let mut first = [0u8; 32];
                    first.copy_from_slice(&ser[..32]);
                    let mut ws = addr_words(&first).to_vec();
                    ws.push(ser[32] as i64);
                    Some(jw(&ws))
                }
                Err(_) => Some(jw(&[0; 5])),
            }
        }
        _ => None,
    }
}

// ---------------------------------------------------------------------------------------------
// Event emission

pub const FULL_LIMIT: usize = 48;
pub const WINDOW: usize = 12;

fn rep_json(rep: &[obs::RepSlot]) -> J {
    J::A(rep
        .iter()
        .map(|s| J::O(vec![("c", J::W(s.c)), ("up", J::B(s.up)), ("lim", J::W(s.lim)), ("ret", ji(s.ret))]))
        .collect())
}

pub fn snap_json(s: &Snap) -> J {
    J::O(vec![
        ("pc", ji(s.pc.min(1 << 20))),
        ("st", jw(&s.st)),
        ("mem", jw(&s.mem)),
        ("pm", jww(&s.pm)),
        ("rep", rep_json(&s.rep)),
        ("halt", J::B(s.halt)),
    ])
}

/// Projection of the machine state after an op: complete when small, otherwise lengths and the
/// top window (complete snapshots are interleaved by the caller).
fn proj_fields(s: &Snap, force_full: bool, out: &mut Vec<(&'static str, J)>) {
    out.push(("sl", ji(s.st.len())));
    out.push(("ml", ji(s.mem.len())));
    if force_full || s.st.len() <= FULL_LIMIT {
        out.push(("st", jw(&s.st)));
    } else {
        out.push(("top", jw(&s.st[s.st.len() - WINDOW..])));
    }
    if force_full || s.mem.len() <= FULL_LIMIT {
        out.push(("mem", jw(&s.mem)));
    } else {
        out.push(("mtop", jw(&s.mem[s.mem.len() - WINDOW..])));
    }
    out.push(("rl", ji(s.rep.len())));
    if force_full || s.rep.len() <= 16 {
        out.push(("rep", rep_json(&s.rep)));
    } else {
        out.push(("rtop", rep_json(&s.rep[s.rep.len() - 2..])));
    }
    out.push(("halt", J::B(s.halt)));
}

fn read_json(r: &Read) -> J {
    let mut f = vec![
        ("view", js(r.view)),
        ("contract", jw(&addr_words(&r.contract))),
        ("key", jw(&r.key)),
        ("n", J::W(r.n.min(i64::MAX as usize) as i64)),
        ("ok", J::B(r.resp.is_some())),
    ];
    f.push(("vals", jww(r.resp.as_deref().unwrap_or(&[]))));
    J::O(f)
}

pub fn env_json(cfg: &RunCfg) -> J {
    let s = &cfg.sols[cfg.idx];
    J::O(vec![
        ("contract", jw(&addr_words(&s.predicate_to_solve.contract.0))),
        ("predicate", jw(&addr_words(&s.predicate_to_solve.predicate.0))),
        ("pdata", jww(&s.predicate_data)),
        ("pex", J::A(pex_hashes(&cfg.sols).iter().map(|h| jw(h)).collect())),
    ])
}

pub struct Emitted {
    pub events: Vec<J>,
    /// number of op events emitted
    pub steps: usize,
    /// the trace was cut short by a phi guard
    pub truncated: bool,
}

/// One VM's events in program order.
struct VmTrace {
    enter_seq: u64,
    enter: Snap,
    ops: Vec<(u64, usize, Op, u64, u64, bool, Snap, Vec<Read>)>,
    exit: Option<(u64, Snap)>,
}

fn group(evs: Vec<(u64, u64, Ev)>) -> Vec<VmTrace> {
    let mut by: BTreeMap<u64, VmTrace> = BTreeMap::new();
    for (seq, id, ev) in evs {
        match ev {
            Ev::Enter { snap } => {
                by.insert(id, VmTrace { enter_seq: seq, enter: snap, ops: vec![], exit: None });
            }
            Ev::Op { pc, op, op_gas, gas_spent, ok, snap, reads } => {
                if let Some(t) = by.get_mut(&id) {
                    t.ops.push((seq, pc, op, op_gas, gas_spent, ok, snap, reads));
                }
            }
            Ev::Exit { gas, snap } => {
                if let Some(t) = by.get_mut(&id) {
                    t.exit = Some((gas, snap));
                }
            }
        }
    }
    let mut v: Vec<VmTrace> = by.into_values().collect();
    v.sort_by_key(|t| t.enter_seq);
    v
}

/// Turn an observed run into TraceVm events.  `label` identifies the run in replay files.
pub fn emit_run(cfg: &RunCfg, out: &RunOut, label: &str) -> Emitted {
    let mut events = vec![];
    let traces = group(out.evs.clone());
    let plen = cfg.prog.len();
    let clamp = |pc: usize| pc.min(plen);
    events.push(J::O(vec![
        ("e", js("init")),
        ("label", js(label)),
        ("plen", ji(plen)),
        ("prog", prog_json(&cfg.prog)),
        ("vm", snap_json(&cfg.vm0)),
        ("env", env_json(cfg)),
        ("limit", J::G(cfg.limit)),
        ("cost", J::O(vec![
            ("d", J::G(cfg.cost.default)),
            ("k", J::A(cfg.cost.table.keys().map(|k| js(k)).collect())),
            ("v", J::A(cfg.cost.table.values().map(|v| J::G(*v)).collect())),
        ])),
    ]));
    let mut steps = 0usize;
    if traces.is_empty() {
        // exec never started (cannot happen: enter is the first statement)
        return Emitted { events, steps, truncated: false };
    }
    if out.outcome == Outcome::Infeasible {
        // the breadth guard (or a byte string that is not a program) stopped this run: nothing
        // after the initial state is a statement about the code under test
        events.push(J::O(vec![("e", js("trunc"))]));
        return Emitted { events, steps, truncated: true };
    }
    let top = &traces[0];
    let kids: Vec<&VmTrace> = traces[1..].iter().collect();
    let mut truncated = false;

    // emit the steps of one VM; returns false when truncated
    fn emit_vm(
        cfg: &RunCfg,
        t: &VmTrace,
        kids: &[&VmTrace],
        events: &mut Vec<J>,
        steps: &mut usize,
        plen: usize,
        is_child: bool,
    ) -> bool {
        let mut pre = t.enter.clone();
        let mut prev_seq = t.enter_seq;
        for (seq, pc, op, _op_gas, gas_spent, ok, snap, reads) in &t.ops {
            let name = ops::name(op);
            if !cw::step_guard(name, &pre.st) {
                events.push(J::O(vec![("e", js("trunc"))]));
                return false;
            }
            if crate::jv::phi_gas(*gas_spent).is_none() {
                events.push(J::O(vec![("e", js("trunc"))]));
                return false;
            }
            if name == "COM" && !is_child {
                events.push(J::O(vec![
                    ("e", js("fork")),
                    ("pc", ji(pc.min(&plen).to_owned())),
                    ("g", J::G(*gas_spent)),
                ]));
                // children of this compute: entered between the previous event and this one
                let mut mine: Vec<&&VmTrace> =
                    kids.iter().filter(|k| k.enter_seq > prev_seq && k.enter_seq < *seq).collect();
                mine.sort_by_key(|k| *k.enter.st.last().unwrap_or(&-1));
                if *ok {
                    for k in &mine {
                        if !emit_child(cfg, k, events, steps, plen) {
                            return false;
                        }
                    }
                } else {
                    // the join failed: show the failing child with the lowest index; if no child
                    // failed, show them all (the specification then has to find the reason in
                    // their memories or their gas)
                    if let Some(k) = mine.iter().find(|k| k.exit.is_none()) {
                        if !emit_child(cfg, k, events, steps, plen) {
                            return false;
                        }
                    } else {
                        for k in &mine {
                            if !emit_child(cfg, k, events, steps, plen) {
                                return false;
                            }
                        }
                    }
                }
                let mut f = vec![("e", js("join")), ("ok", J::B(*ok)), ("g", J::G(*gas_spent))];
                if *ok {
                    proj_fields(snap, false, &mut f);
                }
                events.push(J::O(f));
                *steps += 1;
            } else {
                let mut f = vec![
                    ("e", js("s")),
                    ("pc", ji((*pc).min(plen))),
                    ("op", op_json(op)),
                    ("g", J::G(*gas_spent)),
                    ("ok", J::B(*ok)),
                ];
                if let Some(r) = reads.first() {
                    f.push(("rd", read_json(r)));
                }
                if let Some(o) = crypto_oracle(name, &pre.st) {
                    f.push(("orc", o));
                }
                if *ok {
                    proj_fields(snap, *steps % 64 == 63, &mut f);
                }
                events.push(J::O(f));
                *steps += 1;
            }
            if !*ok {
                return true;
            }
            pre = snap.clone();
            prev_seq = *seq;
        }
        true
    }

    fn emit_child(cfg: &RunCfg, k: &VmTrace, events: &mut Vec<J>, steps: &mut usize, plen: usize) -> bool {
        events.push(J::O(vec![
            ("e", js("cinit")),
            ("i", J::W(*k.enter.st.last().unwrap_or(&-1))),
            ("vm", snap_json(&k.enter)),
        ]));
        if !emit_vm(cfg, k, &[], events, steps, plen, true) {
            return false;
        }
        match &k.exit {
            Some((gas, s)) => {
                let mut f = vec![("e", js("cexit")), ("pc", ji(s.pc.min(plen))), ("g", J::G(*gas))];
                proj_fields(s, s.st.len() + s.mem.len() <= 1024, &mut f);
                events.push(J::O(f));
            }
            None => {
                // the child ended without returning Ok: either its last op failed (already shown)
                // or the next op was refused for lack of gas
                let failed_op = k.ops.last().map(|o| !o.5).unwrap_or(false);
                if !failed_op {
                    events.push(J::O(vec![("e", js("coog"))]));
                }
            }
        }
        true
    }

    if !emit_vm(cfg, top, &kids, &mut events, &mut steps, plen, false) {
        truncated = true;
    }
    if !truncated {
        match &out.outcome {
            Outcome::Ok(g) if crate::jv::phi_gas(*g).is_none() => {
                events.push(J::O(vec![("e", js("trunc"))]));
                truncated = true;
            }
            Outcome::Ok(g) => {
                let mut f = vec![("e", js("exit")), ("pc", ji(clamp(out.fin.pc))), ("g", J::G(*g))];
                proj_fields(&out.fin, out.fin.st.len() + out.fin.mem.len() <= 1024 || steps > 200, &mut f);
                f.push(("pm", jww(&out.fin.pm)));
                events.push(J::O(f));
                if let Some(r) = out.eval {
                    events.push(J::O(vec![("e", js("eval")), ("r", js(r))]));
                }
            }
            Outcome::Oog(pc) if top.ops.last().map(|o| !o.5 && o.1 == *pc).unwrap_or(false) => {
                // the failing op itself reported out-of-gas (a Compute whose children's gas does
                // not fit): an error of that op, not a refused charge
                events.push(J::O(vec![("e", js("err")), ("pc", ji(clamp(*pc))), ("class", js("OutOfGasAtJoin"))]));
            }
            Outcome::Oog(pc) => {
                let mut f = vec![("e", js("oog")), ("pc", ji(clamp(*pc)))];
                // the machine must be exactly as it was before the refused op
                proj_fields(&out.fin, out.fin.st.len() + out.fin.mem.len() <= 1024, &mut f);
                events.push(J::O(f));
            }
            Outcome::Err(pc, class) => {
                events.push(J::O(vec![("e", js("err")), ("pc", ji(clamp(*pc))), ("class", js(class))]));
            }
            Outcome::Panic(msg) => {
                events.push(J::O(vec![("e", js("panic")), ("msg", js(msg))]));
            }
            Outcome::Infeasible => {
                events.push(J::O(vec![("e", js("trunc"))]));
                truncated = true;
            }
        }
    }
    Emitted { events, steps, truncated }
}
