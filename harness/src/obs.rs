//! Observation of the real VM: snapshots, the observer installed through the
//! `essential_vm::verif` hook, and recording state / gas-cost implementations.

use essential_asm::Op;
use essential_types::{convert::word_4_from_u8_32, ContentAddress, Key, Word};
use essential_vm::{Memory, Repeat, Stack, StateRead, Vm};
use std::cell::RefCell;
use std::collections::BTreeMap;
use std::sync::atomic::{AtomicU64, Ordering};
use std::sync::{Arc, Mutex};

#[derive(Clone, Debug, PartialEq)]
pub struct RepSlot {
    pub c: i64,
    pub up: bool,
    pub lim: i64,
    pub ret: usize,
}

#[derive(Clone, Debug, PartialEq, Default)]
pub struct Snap {
    pub pc: usize,
    pub st: Vec<i64>,
    pub mem: Vec<i64>,
    pub pm: Vec<Vec<i64>>,
    pub rep: Vec<RepSlot>,
    pub halt: bool,
}

/// The repeat stack's fields are private; its derived `Debug` output is the observation point.
pub fn parse_repeat(r: &Repeat) -> Vec<RepSlot> {
    let s = format!("{:?}", r);
    let mut out = vec![];
    let mut rest = s.as_str();
    while let Some(i) = rest.find("counter: ") {
        rest = &rest[i + 9..];
        let end = rest.find(',').expect("repeat debug format");
        let c: i64 = rest[..end].trim().parse().expect("repeat counter");
        let li = rest.find("limit: ").expect("repeat debug format");
        rest = &rest[li + 7..];
        let (up, lim) = if rest.starts_with("Up(") {
            let e = rest.find(')').unwrap();
            let lim: i64 = rest[3..e].trim().parse().expect("repeat limit");
            (true, lim)
        } else if rest.starts_with("Down") {
            (false, 0)
        } else {
            panic!("repeat debug format: {s}")
        };
        let ri = rest.find("repeat_index: ").expect("repeat debug format");
        rest = &rest[ri + 14..];
        let e = rest.find(|ch: char| !ch.is_ascii_digit()).unwrap();
        let ret: usize = rest[..e].parse().expect("repeat index");
        out.push(RepSlot { c, up, lim, ret });
    }
    out
}

pub fn snap(vm: &Vm) -> Snap {
    Snap {
        pc: vm.pc,
        st: vm.stack.to_vec(),
        mem: vm.memory.to_vec(),
        pm: vm.parent_memory.iter().map(|m| m.to_vec()).collect(),
        rep: parse_repeat(&vm.repeat),
        halt: vm.halt,
    }
}

/// Build a real VM from a snapshot.  Repeat slots can only be created in their initial
/// configuration through the public API (counter 0 when counting up, = amount when down).
pub fn build_vm(s: &Snap) -> Vm {
    let mut repeat = Repeat::new();
    for slot in &s.rep {
        if slot.up {
            assert_eq!(slot.c, 0);
            repeat.repeat_to(slot.ret, slot.lim).expect("repeat_to");
        } else {
            repeat.repeat_from(slot.ret, slot.c).expect("repeat_from");
        }
    }
    Vm {
        pc: s.pc,
        stack: Stack::try_from(s.st.clone()).expect("stack within limit"),
        memory: Memory::try_from(s.mem.clone()).expect("memory within limit"),
        parent_memory: s
            .pm
            .iter()
            .map(|m| Arc::new(Memory::try_from(m.clone()).expect("parent memory within limit")))
            .collect(),
        halt: s.halt,
        repeat,
        cache: Default::default(),
    }
}

// ---------------------------------------------------------------------------------------------
// Recording state

#[derive(Clone, Debug, PartialEq)]
pub struct Read {
    pub view: &'static str,
    pub contract: [u8; 32],
    pub key: Vec<i64>,
    pub n: usize,
    pub resp: Option<Vec<Vec<i64>>>,
}

thread_local! {
    static READS: RefCell<Vec<Read>> = const { RefCell::new(Vec::new()) };
    /// Top of the stack of the VM that last reported on this thread (breadth guard, see run.rs).
    static LAST_TOP: std::cell::Cell<i64> = const { std::cell::Cell::new(i64::MIN) };
}

pub fn last_top() -> i64 {
    LAST_TOP.with(|c| c.get())
}
fn set_last_top(vm: &Vm) {
    LAST_TOP.with(|c| c.set(vm.stack.last().copied().unwrap_or(i64::MIN)));
}

pub fn drain_reads() -> Vec<Read> {
    READS.with(|r| std::mem::take(&mut *r.borrow_mut()))
}

pub type ContractMap = BTreeMap<[u8; 32], BTreeMap<Vec<i64>, Vec<i64>>>;

#[derive(Clone, Debug)]
pub enum Mode {
    /// `n` consecutive keys from the map; unknown contract => error (like the repo's test state).
    Faithful,
    /// Like Faithful, but an unknown contract reads as empty.
    Lenient,
    /// Always answer with these values, whatever is asked.
    Scripted(Vec<Vec<i64>>),
    /// Always fail.
    Fail,
}

#[derive(Clone)]
pub struct View {
    pub tag: &'static str,
    pub map: Arc<ContractMap>,
    pub mode: Mode,
    /// shared log of every request (used where programs run on threads the harness does not own)
    pub log: Option<Arc<Mutex<Vec<Read>>>>,
    /// schedule perturbation: how long the calling task is held up inside this request
    pub delay: Option<Arc<dyn Fn(&[i64]) -> std::time::Duration + Send + Sync>>,
}

impl std::fmt::Debug for Mode2 {
    fn fmt(&self, f: &mut std::fmt::Formatter) -> std::fmt::Result {
        write!(f, "-")
    }
}
pub struct Mode2;
impl std::fmt::Debug for View {
    fn fmt(&self, f: &mut std::fmt::Formatter) -> std::fmt::Result {
        write!(f, "View({}, {:?})", self.tag, self.mode)
    }
}

#[derive(Debug, Clone)]
pub struct StateErr;
impl std::fmt::Display for StateErr {
    fn fmt(&self, f: &mut std::fmt::Formatter) -> std::fmt::Result {
        write!(f, "state error")
    }
}

pub fn next_key(mut key: Key) -> Option<Key> {
    for w in key.iter_mut().rev() {
        match *w {
            Word::MAX => *w = Word::MIN,
            _ => {
                *w += 1;
                return Some(key);
            }
        }
    }
    None
}

impl View {
    pub fn new(tag: &'static str, map: ContractMap, mode: Mode) -> Self {
        View { tag, map: Arc::new(map), mode, log: None, delay: None }
    }
    pub fn empty(tag: &'static str) -> Self {
        View::new(tag, Default::default(), Mode::Lenient)
    }
    fn answer(&self, contract: &[u8; 32], key: &Key, n: usize) -> Option<Vec<Vec<i64>>> {
        match &self.mode {
            Mode::Fail => None,
            Mode::Scripted(v) => Some(v.clone()),
            Mode::Faithful | Mode::Lenient => {
                let empty = BTreeMap::new();
                let c = match self.map.get(contract) {
                    Some(c) => c,
                    None if matches!(self.mode, Mode::Lenient) => &empty,
                    None => return None,
                };
                let mut out = Vec::new();
                let mut k = Some(key.clone());
                // never trust the count for allocation
                for _ in 0..n.min(1 << 9) {
                    let Some(kk) = k else { break };
                    out.push(c.get(&kk).cloned().unwrap_or_default());
                    k = next_key(kk);
                }
                Some(out)
            }
        }
    }
}

impl StateRead for View {
    type Error = StateErr;
    fn key_range(&self, contract_addr: ContentAddress, key: Key, num_values: usize) -> Result<Vec<Vec<Word>>, StateErr> {
        if let Some(d) = &self.delay {
            let dur = d(&key);
            if !dur.is_zero() {
                std::thread::sleep(dur);
            }
        }
        let resp = self.answer(&contract_addr.0, &key, num_values);
        let rd = Read { view: self.tag, contract: contract_addr.0, key: key.clone(), n: num_values, resp: resp.clone() };
        if let Some(log) = &self.log {
            log.lock().unwrap().push(rd.clone());
        }
        READS.with(|r| r.borrow_mut().push(rd));
        resp.ok_or(StateErr)
    }
}

pub fn addr_words(a: &[u8; 32]) -> [i64; 4] {
    word_4_from_u8_32(*a)
}

// ---------------------------------------------------------------------------------------------
// Observer

#[derive(Clone, Debug)]
pub enum Ev {
    Enter { snap: Snap },
    Op { pc: usize, op: Op, op_gas: u64, gas_spent: u64, ok: bool, snap: Snap, reads: Vec<Read> },
    Exit { gas: u64, snap: Snap },
}

#[derive(Default)]
pub struct Recorder {
    seq: AtomicU64,
    /// (global sequence number, vm id, event)
    pub evs: Mutex<Vec<(u64, u64, Ev)>>,
    pub enabled: std::sync::atomic::AtomicBool,
}

impl Recorder {
    fn push(&self, id: u64, ev: Ev) {
        let mut g = self.evs.lock().unwrap();
        let s = self.seq.fetch_add(1, Ordering::Relaxed);
        g.push((s, id, ev));
    }
    pub fn take(&self) -> Vec<(u64, u64, Ev)> {
        std::mem::take(&mut *self.evs.lock().unwrap())
    }
}

impl essential_vm::verif::Observer for Recorder {
    fn enter(&self, id: u64, vm: &Vm) {
        if self.enabled.load(Ordering::Relaxed) {
            set_last_top(vm);
            // reads left over on this thread belong to nobody
            drain_reads();
            self.push(id, Ev::Enter { snap: snap(vm) });
        }
    }
    fn op(&self, id: u64, pc: usize, op: &Op, op_gas: u64, gas_spent: u64, ok: bool, vm: &Vm) {
        if self.enabled.load(Ordering::Relaxed) {
            set_last_top(vm);
            let reads = drain_reads();
            self.push(id, Ev::Op { pc, op: *op, op_gas, gas_spent, ok, snap: snap(vm), reads });
        }
    }
    fn exit(&self, id: u64, gas_spent: u64, vm: &Vm) {
        if self.enabled.load(Ordering::Relaxed) {
            self.push(id, Ev::Exit { gas: gas_spent, snap: snap(vm) });
        }
    }
}

static RECORDER: std::sync::OnceLock<Arc<Recorder>> = std::sync::OnceLock::new();

/// The process-wide recorder (installed on first use).
pub fn recorder() -> Arc<Recorder> {
    RECORDER
        .get_or_init(|| {
            let r = Arc::new(Recorder::default());
            essential_vm::verif::set_observer(Some(r.clone()));
            r
        })
        .clone()
}
