//! C01 / C03 / C04 / C06 / C16(computed sets): the real two-pass checker on generated cases.
//! Node programs "report on themselves" through marker reads (DESIGN.md 4.4); each case becomes
//! one event that spec/trace/TraceChecker.tla explains with Checker!TwoPass, which evaluates the
//! very same node programs with the VM specification.
//!
//!   --mode exh      every node/edge encoding with <= 3 nodes and <= 2 (thorough 3) edges over node
//!                   ids 0..N (N = a missing node), every edge_start incl. the leaf marker,
//!                   x placements of a post-state read x leaf kinds x collect_all
//!   --mode rand     random graphs up to 12 nodes / 20 edges (random numbering, multi-edges, several
//!                   roots and leaves, dangling and cyclic variants), 1-3 solutions, reads, mutations
//!   --mode overlay  post/pre-state reads over mutated, deleted and untouched keys incl. word carry
//!   --mode perm     solution sets and their permutations (C04)
//!   --mode decode   data-output memories that are not valid mutation encodings (C06)

use super::Batcher;
use crate::jv::{ji, js, jw, jww, J};
use crate::obs::{addr_words, ContractMap, Mode, Read, View};
use crate::ops::{self, prog_json, push};
use crate::run::small_addr;
use crate::Args;
use essential_asm::Op;
use essential_check::solution::{
    check_and_compute_solution_set_two_pass, check_set_predicates, CheckPredicateConfig, PredicateError, PredicatesError, RunMode,
};
use essential_types::{
    predicate::{Node, Predicate, Program},
    solution::{Mutation, Solution, SolutionSet},
    ContentAddress, PredicateAddress,
};
use rand::rngs::SmallRng;
use rand::seq::SliceRandom;
use rand::{Rng, SeedableRng};
use serde_json::json;
use std::collections::HashMap;
use std::sync::{Arc, Mutex};

pub const LEAF: u16 = u16::MAX;
pub const TAG: i64 = -99;
pub const SEP: i64 = -7;
pub const TICK: i64 = -98;

/// a pre-state read of zero keys whose key names the task: a point where the harness can hold
/// the task up (schedule perturbation); leaves the stack as it was
pub fn tick(a: i64, b: i64) -> Vec<Op> {
    vec![push(a), push(b), push(TICK), push(3), push(0), push(0), by("KRNG")]
}

#[derive(Clone, Debug)]
pub struct SolD {
    pub contract: i64,
    pub pred: usize,
    pub predw: i64,
    pub pdata: Vec<Vec<i64>>,
    pub decl: Vec<(Vec<i64>, Vec<i64>)>,
}
#[derive(Clone, Debug)]
pub struct PredD {
    pub nodes: Vec<(u16, usize)>,
    pub edges: Vec<u16>,
}
#[derive(Clone, Debug)]
pub struct ProgD {
    pub bad: Option<Vec<u8>>,
    pub ops: Vec<Op>,
}
#[derive(Clone, Debug)]
pub struct Case {
    pub sols: Vec<SolD>,
    pub preds: Vec<PredD>,
    pub progs: Vec<ProgD>,
    pub pre: Vec<(i64, Vec<i64>, Vec<i64>)>,
    pub all: bool,
}

fn by(n: &str) -> Op {
    ops::by_name(n).unwrap()
}

// ---------------------------------------------------------------------------------------------
// Program building blocks

/// every node leaves a trace of itself on the stack and in memory
pub fn body(n: usize) -> Vec<Op> {
    vec![push(100 + n as i64), push(1), by("ALOC"), push(200 + n as i64), by("SWAP"), by("STO")]
}

/// read `count` keys starting at `key` from the pre/post state of the own or an external
/// contract into a fresh scratch area of memory
pub fn read(post: bool, ext: Option<i64>, key: &[i64], count: i64) -> Vec<Op> {
    let mut v = vec![push(20), by("ALOC")];
    let mut above = 0;
    if let Some(base) = ext {
        for i in 0..4 {
            v.push(push(base + i));
        }
        above += 4;
    }
    for k in key {
        v.push(push(*k));
    }
    v.push(push(key.len() as i64));
    v.push(push(count));
    above += key.len() as i64 + 2;
    v.push(push(above));
    v.push(by("DUPF"));
    v.push(by(match (post, ext.is_some()) {
        (false, false) => "KRNG",
        (false, true) => "KREX",
        (true, false) => "PKRNG",
        (true, true) => "PKREX",
    }));
    v.push(by("POP"));
    v
}

/// report the whole stack and memory through a marker read (consumes the stack)
pub fn report(sol: usize, node: usize) -> Vec<Op> {
    vec![
        push(SEP), push(0), by("ALOC"), push(0), by("SWAP"), by("LODR"),
        push(sol as i64), push(node as i64), push(TAG),
        push(0), by("RES"), push(0), push(0), by("KRNG"),
    ]
}

#[derive(Clone, Debug, PartialEq)]
pub enum Leaf {
    True,
    False,
    Other,
    Error,
    /// data output: this memory
    Data(Vec<i64>),
}

pub fn leaf_end(k: &Leaf) -> Vec<Op> {
    match k {
        Leaf::True => vec![push(1)],
        Leaf::False => vec![push(0)],
        Leaf::Other => vec![push(1), push(1)],
        Leaf::Error => vec![push(1), by("PNCIF")],
        Leaf::Data(words) => {
            let mut v = vec![push(0), by("FREE"), push(words.len() as i64), by("ALOC"), by("POP")];
            for w in words {
                v.push(push(*w));
            }
            v.push(push(words.len() as i64));
            v.push(push(0));
            v.push(by("STOR"));
            v.push(push(2));
            v
        }
    }
}

pub fn encode_muts(ms: &[(Vec<i64>, Vec<i64>)]) -> Vec<i64> {
    let mut v = vec![ms.len() as i64];
    for (k, val) in ms {
        v.push(k.len() as i64);
        v.extend(k);
        v.push(val.len() as i64);
        v.extend(val);
    }
    v
}

// ---------------------------------------------------------------------------------------------
// Running a case on the real checker

#[derive(Clone, Debug)]
pub enum Obs {
    Ok { gas: u64, muts: Vec<Vec<(Vec<i64>, Vec<i64>)>> },
    Failed(Vec<(u16, &'static str, Vec<usize>)>),
    Other(String),
    Panic(String),
}

pub struct RunResult {
    pub obs: Obs,
    pub marks: Vec<Vec<i64>>,
    pub reads: Vec<Read>,
    pub content_addr: [u8; 32],
}

pub fn build(case: &Case) -> (SolutionSet, HashMap<PredicateAddress, Arc<Predicate>>, HashMap<ContentAddress, Arc<Program>>) {
    let prog_addr = |i: usize| ContentAddress(small_addr(9000 + 10 * i as i64));
    let mut programs = HashMap::new();
    for (i, p) in case.progs.iter().enumerate() {
        let bytes = match &p.bad {
            Some(b) => b.clone(),
            None => essential_asm::to_bytes(p.ops.iter().copied()).collect(),
        };
        programs.insert(prog_addr(i), Arc::new(Program(bytes)));
    }
    let mut predicates = HashMap::new();
    let mut sols = vec![];
    for s in &case.sols {
        let pd = &case.preds[s.pred];
        let pred = Predicate {
            nodes: pd.nodes.iter().map(|(es, prog)| Node { edge_start: *es, program_address: prog_addr(*prog) }).collect(),
            edges: pd.edges.clone(),
        };
        let addr = PredicateAddress { contract: ContentAddress(small_addr(s.contract)), predicate: ContentAddress(small_addr(s.predw)) };
        predicates.insert(addr.clone(), Arc::new(pred));
        sols.push(Solution {
            predicate_to_solve: addr,
            predicate_data: s.pdata.clone(),
            state_mutations: s.decl.iter().map(|(k, v)| Mutation { key: k.clone(), value: v.clone() }).collect(),
        });
    }
    (SolutionSet { solutions: sols }, predicates, programs)
}

pub fn pre_view(case: &Case, log: Arc<Mutex<Vec<Read>>>) -> View {
    let mut m = ContractMap::new();
    for (c, k, v) in &case.pre {
        m.entry(small_addr(*c)).or_default().insert(k.clone(), v.clone());
    }
    let mut v = View::new("pre", m, Mode::Lenient);
    v.log = Some(log);
    v
}

pub fn run_case(case: &Case) -> RunResult {
    run_case_with(case, None)
}

pub fn run_case_with(case: &Case, delay: Option<Arc<dyn Fn(&[i64]) -> std::time::Duration + Send + Sync>>) -> RunResult {
    let (set, predicates, programs) = build(case);
    let log = Arc::new(Mutex::new(vec![]));
    let mut pre = pre_view(case, log.clone());
    pre.delay = delay;
    let content_addr = essential_hash::content_addr(&set).0;
    let cfg = Arc::new(CheckPredicateConfig { collect_all_failures: case.all });
    let preds = Arc::new(predicates);
    let progs = Arc::new(programs);
    let res = std::panic::catch_unwind(std::panic::AssertUnwindSafe(|| {
        check_and_compute_solution_set_two_pass(&pre, set, preds.clone(), progs.clone(), cfg)
    }));
    let obs = match res {
        Err(p) => Obs::Panic(
            p.downcast_ref::<String>().cloned().or_else(|| p.downcast_ref::<&str>().map(|s| s.to_string())).unwrap_or_else(|| "panic".into()),
        ),
        Ok(Ok((gas, set))) => Obs::Ok {
            gas,
            muts: set.solutions.iter().map(|s| s.state_mutations.iter().map(|m| (m.key.clone(), m.value.clone())).collect()).collect(),
        },
        Ok(Err(PredicatesError::Failed(errs))) => Obs::Failed(
            errs.0
                .iter()
                .map(|(s, e)| match e {
                    PredicateError::InvalidNodeEdges(n) => (*s, "graph", vec![*n]),
                    PredicateError::ProgramErrors(pe) => (*s, "prog", pe.verif_node_indices()),
                    PredicateError::ConstraintsUnsatisfied(u) => (*s, "unsat", u.0.clone()),
                    PredicateError::Mutations(_) => (*s, "mut", vec![]),
                })
                .collect(),
        ),
        Ok(Err(e)) => Obs::Other(format!("{e:?}").chars().take(60).collect()),
    };
    let reads: Vec<Read> = std::mem::take(&mut *log.lock().unwrap());
    let marks = reads.iter().filter(|r| r.n == 0 && r.key.last() == Some(&TAG)).map(|r| r.key.clone()).collect();
    RunResult { obs, marks, reads, content_addr }
}

/// The other way to run a complete check: `check_set_predicates` in Outputs mode and then in
/// Checks mode over one shared cache, with pre and post views supplied by the caller.  Only used
/// for cases without any mutation (declared or computed), where post-state = pre-state.
pub fn run_case_modes(case: &Case) -> RunResult {
    let (set, predicates, programs) = build(case);
    let log = Arc::new(Mutex::new(vec![]));
    let pre = pre_view(case, log.clone());
    let mut post = pre_view(case, log.clone());
    post.tag = "post";
    let content_addr = essential_hash::content_addr(&set).0;
    let cfg = Arc::new(CheckPredicateConfig { collect_all_failures: case.all });
    let preds = Arc::new(predicates);
    let progs = Arc::new(programs);
    let set = Arc::new(set);
    let nsol = set.solutions.len();
    let res = std::panic::catch_unwind(std::panic::AssertUnwindSafe(|| {
        let mut cache = HashMap::new();
        let state = (pre.clone(), post.clone());
        let o1 = check_set_predicates(&state, set.clone(), preds.clone(), progs.clone(), cfg.clone(), RunMode::Outputs, &mut cache)?;
        let o2 = check_set_predicates(&state, set.clone(), preds.clone(), progs.clone(), cfg.clone(), RunMode::Checks, &mut cache)?;
        Ok::<_, PredicatesError<crate::obs::StateErr>>((o1.gas.saturating_add(o2.gas), o1.data.iter().chain(o2.data.iter()).map(|d| d.data.len()).sum::<usize>()))
    }));
    let obs = match res {
        Err(_) => Obs::Panic("panic".into()),
        Ok(Ok((gas, _ndata))) => Obs::Ok { gas, muts: vec![vec![]; nsol] },
        Ok(Err(PredicatesError::Failed(errs))) => Obs::Failed(
            errs.0
                .iter()
                .map(|(s, e)| match e {
                    PredicateError::InvalidNodeEdges(n) => (*s, "graph", vec![*n]),
                    PredicateError::ProgramErrors(pe) => (*s, "prog", pe.verif_node_indices()),
                    PredicateError::ConstraintsUnsatisfied(u) => (*s, "unsat", u.0.clone()),
                    PredicateError::Mutations(_) => (*s, "mut", vec![]),
                })
                .collect(),
        ),
        Ok(Err(e)) => Obs::Other(format!("{e:?}").chars().take(60).collect()),
    };
    let reads: Vec<Read> = std::mem::take(&mut *log.lock().unwrap());
    let marks = reads.iter().filter(|r| r.n == 0 && r.key.last() == Some(&TAG)).map(|r| r.key.clone()).collect();
    RunResult { obs, marks, reads, content_addr }
}

// ---------------------------------------------------------------------------------------------
// Events

fn muts_j(ms: &[(Vec<i64>, Vec<i64>)]) -> J {
    J::A(ms.iter().map(|(k, v)| J::O(vec![("key", jw(k)), ("value", jw(v))])).collect())
}

pub fn case_json(case: &Case) -> J {
    J::O(vec![
        ("sols", J::A(case.sols.iter().map(|s| J::O(vec![
            ("contract", jw(&addr_words(&small_addr(s.contract)))),
            ("pred", ji(s.pred + 1)),
            ("predw", jw(&addr_words(&small_addr(s.predw)))),
            ("pdata", jww(&s.pdata)),
            ("decl", muts_j(&s.decl)),
        ])).collect())),
        ("preds", J::A(case.preds.iter().map(|p| J::O(vec![
            ("nodes", J::A(p.nodes.iter().map(|(es, prog)| J::O(vec![("es", ji(*es as usize)), ("prog", ji(prog + 1))])).collect())),
            ("edges", J::A(p.edges.iter().map(|e| ji(*e as usize)).collect())),
        ])).collect())),
        ("progs", J::A(case.progs.iter().map(|p| J::O(vec![
            ("bad", J::B(p.bad.is_some())),
            ("ops", prog_json(&p.ops)),
        ])).collect())),
        ("pre", J::A(case.pre.iter().map(|(c, k, v)| J::O(vec![("c", jw(&addr_words(&small_addr(*c)))), ("k", jw(k)), ("v", jw(v))])).collect())),
        ("all", J::B(case.all)),
    ])
}

pub fn obs_json(o: &Obs) -> J {
    match o {
        Obs::Ok { gas, muts } => J::O(vec![("k", js("ok")), ("gas", J::G(*gas)), ("muts", J::A(muts.iter().map(|m| muts_j(m)).collect()))]),
        Obs::Failed(who) => J::O(vec![
            ("k", js("failed")),
            ("who", J::A(who.iter().map(|(s, kind, nodes)| J::O(vec![("s", ji(*s as usize)), ("kind", js(kind)), ("nodes", J::A(nodes.iter().map(|n| ji(*n)).collect()))])).collect())),
        ]),
        Obs::Other(m) => J::O(vec![("k", js("other")), ("msg", js(m))]),
        Obs::Panic(m) => J::O(vec![("k", js("panic")), ("msg", js(m))]),
    }
}

pub fn raw_case(case: &Case) -> serde_json::Value {
    json!({
        "sols": case.sols.iter().map(|s| json!({"contract": s.contract, "pred": s.pred, "predw": s.predw, "pdata": s.pdata, "decl": s.decl})).collect::<Vec<_>>(),
        "preds": case.preds.iter().map(|p| json!({"nodes": p.nodes, "edges": p.edges})).collect::<Vec<_>>(),
        "progs": case.progs.iter().map(|p| json!({"bad": p.bad, "ops": p.ops.iter().map(|o| crate::jv::to_raw(&ops::op_json(o))).collect::<Vec<_>>()})).collect::<Vec<_>>(),
        "pre": case.pre,
        "all": case.all,
    })
}

pub fn emit(b: &mut Batcher, label: &str, case: &Case) -> RunResult {
    let r = run_case(case);
    emit_result(b, label, case, r)
}

pub fn emit_result(b: &mut Batcher, label: &str, case: &Case, r: RunResult) -> RunResult {
    // C16: a set returned by the mutation-computing check must still pass set validation
    let revalid = match &r.obs {
        Obs::Ok { muts, .. } => {
            let (mut set, _, _) = build(case);
            for (s, ms) in set.solutions.iter_mut().zip(muts) {
                s.state_mutations = ms.iter().map(|(k, v)| Mutation { key: k.clone(), value: v.clone() }).collect();
            }
            essential_check::solution::check_set(&set).is_ok()
        }
        _ => true,
    };
    let accepted = {
        let (set, _, _) = build(case);
        essential_check::solution::check_set(&set).is_ok()
    };
    let ev = J::O(vec![
        ("e", js("chk")),
        ("label", js(label)),
        ("case", case_json(case)),
        ("obs", obs_json(&r.obs)),
        ("revalid", J::B(revalid)),
        ("accepted", J::B(accepted)),
        ("marks", J::A(r.marks.iter().map(|m| jw(m)).collect())),
    ]);
    match &r.obs {
        Obs::Ok { .. } => b.count("ok", 1),
        Obs::Failed(w) => b.count(&format!("failed:{}", w[0].1), 1),
        Obs::Other(_) => b.count("other", 1),
        Obs::Panic(_) => b.count("panic", 1),
    }
    b.count("marks", r.marks.len() as u64);
    b.push_run(label, vec![ev], raw_case(case));
    r
}

// ---------------------------------------------------------------------------------------------
// Case construction helpers

/// Programs for one predicate: node i gets body(i) (+ optional reads) and, if a leaf, report + ending.
pub struct NodeSpec {
    /// extra code after the body (e.g. a Compute block)
    pub extra: Vec<Op>,
    pub tick: bool,
    pub reads: Vec<Vec<Op>>,
    pub fail: bool,
    pub leaf: Leaf,
    pub report: bool,
}
impl Default for NodeSpec {
    fn default() -> Self {
        NodeSpec { extra: vec![], tick: false, reads: vec![], fail: false, leaf: Leaf::True, report: true }
    }
}

pub fn is_leaf_enc(p: &PredD, n: usize) -> Option<bool> {
    // mirrors Predicate::node_edges only to decide which program shape to give the node
    let (es, _) = p.nodes[n];
    if es == LEAF {
        return Some(true);
    }
    let end = match p.nodes.get(n + 1) {
        Some((nes, _)) if *nes != LEAF => *nes as usize,
        _ => p.edges.len(),
    };
    if es as usize > end || end > p.edges.len() {
        return None;
    }
    Some(es as usize == end)
}

pub fn node_program(sol: usize, n: usize, leaf: bool, spec: &NodeSpec) -> Vec<Op> {
    let mut v = vec![];
    if spec.tick {
        v.extend(tick(sol as i64, n as i64));
    }
    v.extend(body(n));
    v.extend(spec.extra.iter().copied());
    for r in &spec.reads {
        v.extend(r.iter().copied());
    }
    if spec.fail {
        v.extend([push(1), by("PNCIF")]);
    }
    if leaf {
        if spec.report {
            v.extend(report(sol, n));
        } else if std::env::var("VH_NOCLEAR").is_err() {
            // a leaf's verdict is its WHOLE stack: drop everything inherited
            v.extend([push(0), by("RES"), by("DROP")]);
        }
        v.extend(leaf_end(&spec.leaf));
    }
    v
}

pub fn main(args: &Args) -> i32 {
    let mode = args.extra.get("mode").cloned().unwrap_or_else(|| "exh".into());
    let mut b = Batcher::new(&args.out, &format!("checker_{mode}"), 4_000);
    let mut rng = SmallRng::seed_from_u64(args.seed ^ 0xC4EC ^ (args.shard.0 << 24));
    match mode.as_str() {
        "exh" => exh(args, &mut b),
        "dag4" => dag4(args, &mut b),
        "rand" => rand_cases(args, &mut b, &mut rng),
        "overlay" => overlay(args, &mut b, &mut rng),
        "perm" => perm(args, &mut b, &mut rng),
        "decode" => decode(args, &mut b, &mut rng),
        "sched" => sched(args, &mut b, &mut rng),
        "probe-f8b" => {
            // Finding F8b: a post-state range read with an astronomically large count over a contract
            // the set mutates iterates once per requested key.  This call is not expected to return
            // within any reasonable time; the runner bounds it by wall clock.
            let pred = PredD { nodes: vec![(0, 0), (LEAF, 0)], edges: vec![1] };
            let mut specs: Vec<NodeSpec> = (0..2).map(|_| NodeSpec::default()).collect();
            let count: i64 = args.extra.get("count").and_then(|c| c.parse().ok()).unwrap_or(i64::MAX);
            specs[0].reads.push(read(true, None, &[0], count));
            let case = single_case(pred, &specs, false, false, vec![(vec![5], vec![1])], vec![]);
            let t0 = std::time::Instant::now();
            let r = run_case(&case);
            println!("probe returned after {:?}: {:?}", t0.elapsed(), r.obs);
            return 0;
        }
        _ => {
            eprintln!("unknown mode {mode}");
            return 2;
        }
    }
    b.finish(json!({"driver": "checker", "mode": mode}))
}

fn mine(args: &Args, n: &mut u64) -> bool {
    *n += 1;
    *n % args.shard.1 == args.shard.0
}

/// One solution solving predicate 0 (whose node programs are built from `specs`), optionally a
/// second solution solving a fixed two-node predicate.
fn single_case(pred: PredD, specs: &[NodeSpec], all: bool, second: bool, decl: Vec<(Vec<i64>, Vec<i64>)>, pre: Vec<(i64, Vec<i64>, Vec<i64>)>) -> Case {
    let mut progs = vec![];
    let mut p = pred.clone();
    for n in 0..p.nodes.len() {
        let leaf = is_leaf_enc(&pred, n).unwrap_or(true);
        progs.push(ProgD { bad: None, ops: node_program(0, n, leaf, &specs[n]) });
        p.nodes[n].1 = n;
    }
    let mut preds = vec![p];
    let mut sols = vec![SolD { contract: 1001, pred: 0, predw: 2001, pdata: vec![vec![5, 6]], decl }];
    if second {
        let base = progs.len();
        progs.push(ProgD { bad: None, ops: node_program(1, 0, false, &NodeSpec::default()) });
        progs.push(ProgD { bad: None, ops: node_program(1, 1, true, &NodeSpec::default()) });
        preds.push(PredD { nodes: vec![(0, base), (LEAF, base + 1)], edges: vec![1] });
        sols.push(SolD { contract: 1001, pred: 1, predw: 2011, pdata: vec![], decl: vec![] });
    }
    Case { sols, preds, progs, pre, all }
}

fn exh(args: &Args, b: &mut Batcher) {
    let mut cnt = 0u64;
    let max_e = if args.thorough { 3 } else { 2 };
    for n in 1..=3usize {
        for e in 0..=max_e {
            // edge targets over 0..=n (n = missing node)
            let targets = (n + 1).pow(e as u32);
            let es_opts: Vec<u16> = (0..=e as u16).chain([LEAF]).collect();
            let es_count = es_opts.len().pow(n as u32);
            for ti in 0..targets {
                let mut edges = vec![];
                let mut t = ti;
                for _ in 0..e {
                    edges.push((t % (n + 1)) as u16);
                    t /= n + 1;
                }
                for ei in 0..es_count {
                    let mut nodes = vec![];
                    let mut x = ei;
                    for _ in 0..n {
                        nodes.push((es_opts[x % es_opts.len()], 0usize));
                        x /= es_opts.len();
                    }
                    let pred = PredD { nodes, edges: edges.clone() };
                    // variants: plain; each node as post-reader; leaf kinds on the last node; a failing node
                    let mut variants: Vec<(String, Vec<NodeSpec>)> = vec![("plain".into(), (0..n).map(|_| NodeSpec::default()).collect())];
                    for k in 0..n {
                        let mut s: Vec<NodeSpec> = (0..n).map(|_| NodeSpec::default()).collect();
                        s[k].reads.push(read(true, None, &[7], 2));
                        variants.push((format!("post{k}"), s));
                    }
                    for (name, lk) in [("false", Leaf::False), ("other", Leaf::Other), ("data", Leaf::Data(encode_muts(&[(vec![7], vec![70 + n as i64])]))), ("error", Leaf::Error)] {
                        for k in [0, n - 1] {
                            let mut s: Vec<NodeSpec> = (0..n).map(|_| NodeSpec::default()).collect();
                            s[k].leaf = lk.clone();
                            if name == "data" && n > 1 {
                                s[(k + 1) % n].reads.push(read(true, None, &[7], 1));
                            }
                            variants.push((format!("{name}{k}"), s));
                            if n == 1 {
                                break;
                            }
                        }
                    }
                    {
                        let mut s: Vec<NodeSpec> = (0..n).map(|_| NodeSpec::default()).collect();
                        s[0].fail = true;
                        variants.push(("fail0".into(), s));
                    }
                    for (vi, (vname, specs)) in variants.into_iter().enumerate() {
                        if !mine(args, &mut cnt) {
                            continue;
                        }
                        let all = (cnt / args.shard.1) % 2 == 0;
                        let second = vi % 3 == 1;
                        let case = single_case(pred.clone(), &specs, all, second, vec![(vec![8], vec![80])], vec![(1001, vec![7], vec![1]), (1001, vec![8], vec![2])]);
                        emit(b, &format!("exh/n{n}e{e}/t{ti}/s{ei}/{vname}/{}", if all { "all" } else { "first" }), &case);
                    }
                }
            }
        }
    }
}

fn random_pred(rng: &mut SmallRng, n: usize) -> PredD {
    // random DAG over a random numbering, then perturbations
    let mut order: Vec<usize> = (0..n).collect();
    order.shuffle(rng);
    let mut children: Vec<Vec<u16>> = vec![vec![]; n];
    let nedges = rng.gen_range(0..(2 * n).min(20) + 1);
    for _ in 0..nedges {
        let a = rng.gen_range(0..n);
        let c = rng.gen_range(0..n);
        if a == c {
            continue;
        }
        // edge from the earlier to the later in `order` keeps it acyclic
        let (pa, pc) = (order.iter().position(|x| *x == a).unwrap(), order.iter().position(|x| *x == c).unwrap());
        let (from, to) = if pa < pc { (a, c) } else { (c, a) };
        children[from].push(to as u16);
    }
    match rng.gen_range(0..12) {
        0 => {
            // a back edge: cycle
            let a = order[n - 1];
            children[a].push(order[0] as u16);
        }
        1 => {
            let a = rng.gen_range(0..n);
            children[a].push(n as u16 + rng.gen_range(0..3)); // dangling
        }
        _ => {}
    }
    let mut nodes = vec![];
    let mut edges = vec![];
    for c in &children {
        if c.is_empty() {
            nodes.push((LEAF, 0));
        } else {
            nodes.push((edges.len() as u16, 0));
            edges.extend(c.iter().copied());
        }
    }
    if rng.gen_range(0..15) == 0 && !nodes.is_empty() {
        let k = rng.gen_range(0..nodes.len());
        nodes[k].0 = rng.gen_range(0..(edges.len() as u16 + 3));
    }
    PredD { nodes, edges }
}

fn rand_cases(args: &Args, b: &mut Batcher, rng: &mut SmallRng) {
    let count = if args.thorough { 8000 } else { 800 } / args.shard.1.max(1);
    for i in 0..count {
        let nsol = rng.gen_range(1..4usize);
        let mut preds = vec![];
        let mut progs = vec![];
        let mut sols = vec![];
        let keys: Vec<Vec<i64>> = vec![vec![0], vec![1], vec![2], vec![i64::MAX], vec![0, i64::MAX], vec![1, i64::MIN], vec![3, 3]];
        for s in 0..nsol {
            let n = if rng.gen_range(0..4) == 0 { rng.gen_range(5..13) } else { rng.gen_range(1..6) };
            let mut pred = random_pred(rng, n);
            for k in 0..n {
                let leaf = is_leaf_enc(&pred, k).unwrap_or(true);
                let mut spec = NodeSpec::default();
                if rng.gen_range(0..5) == 0 {
                    let key = keys[rng.gen_range(0..keys.len())].clone();
                    let ext = if rng.gen_bool(0.3) { Some(1001) } else { None };
                    let post = rng.gen_bool(0.5);
                    let cnt = rng.gen_range(0..4);
                    spec.reads.push(read(post, ext, &key, cnt));
                }
                spec.fail = rng.gen_range(0..25) == 0;
                spec.report = rng.gen_range(0..8) != 0;
                spec.leaf = match rng.gen_range(0..12) {
                    0 => Leaf::False,
                    1 => Leaf::Other,
                    2 => Leaf::Error,
                    3 | 4 => {
                        let k = keys[rng.gen_range(0..keys.len())].clone();
                        let v: Vec<i64> = (0..rng.gen_range(0..3)).map(|_| rng.gen_range(0..50)).collect();
                        Leaf::Data(encode_muts(&[(k, v)]))
                    }
                    _ => Leaf::True,
                };
                pred.nodes[k].1 = progs.len();
                progs.push(ProgD { bad: None, ops: node_program(s, k, leaf, &spec) });
            }
            preds.push(pred);
            let decl = if rng.gen_range(0..3) == 0 {
                let k = keys[rng.gen_range(0..keys.len())].clone();
                vec![(k, vec![rng.gen_range(0..9)])]
            } else {
                vec![]
            };
            sols.push(SolD { contract: if rng.gen_bool(0.6) { 1001 } else { 1101 }, pred: s, predw: 2001 + 10 * s as i64, pdata: vec![vec![s as i64]], decl });
        }
        let pre = vec![(1001, vec![0], vec![11]), (1001, vec![1], vec![12, 13]), (1001, vec![i64::MAX], vec![14]), (1101, vec![0], vec![15]), (1001, vec![0, i64::MAX], vec![16])];
        let case = Case { sols, preds, progs, pre, all: rng.gen_bool(0.5) };
        emit(b, &format!("rand/{}/{i}", args.shard.0), &case);
        // mutation-free variant through both entry points (two-pass, and the two run modes called
        // in sequence over a shared cache)
        if i % 3 == 0 {
            let mut c2 = case.clone();
            for s in c2.sols.iter_mut() {
                s.decl.clear();
            }
            for p in c2.progs.iter_mut() {
                // a data output ends in PUSH 2: make it an ordinary satisfied leaf
                if let Some(last) = p.ops.last_mut() {
                    if *last == push(2) {
                        *last = push(1);
                    }
                }
            }
            emit(b, &format!("rand2p/{}/{i}", args.shard.0), &c2);
            let r = run_case_modes(&c2);
            emit_result(b, &format!("randmodes/{}/{i}", args.shard.0), &c2, r);
        }
    }
}

/// C03: what post-state and pre-state reads return for ranges over mutated / deleted / untouched
/// keys, with declared and computed mutations, own and external contract.
fn overlay(args: &Args, b: &mut Batcher, rng: &mut SmallRng) {
    let mut cnt = 0u64;
    let words = [i64::MAX - 1, i64::MAX, i64::MIN, 0, 1];
    let mut keys: Vec<Vec<i64>> = words.iter().map(|w| vec![*w]).collect();
    for a in [0, i64::MAX] {
        for c in [i64::MAX - 1, i64::MAX, i64::MIN] {
            keys.push(vec![a, c]);
        }
    }
    keys.push(vec![]);
    let values: Vec<Vec<i64>> = vec![vec![], vec![7], vec![7, 8]];
    // graph: 0 -> 2 <- 1 ; node 0 is a data-output... leaves only produce data, so:
    // nodes: 0 (root, plain) -> 1 (leaf, data output: computed mutations)
    //        2 (root, post reader) -> 3 (leaf, reports)
    //        4 (root, pre reader, leaf, reports)
    let pred = PredD { nodes: vec![(0, 0), (LEAF, 0), (1, 0), (LEAF, 0), (LEAF, 0)], edges: vec![1, 3] };
    let count = if args.thorough { 30000 } else { 3000 };
    for i in 0..count {
        if !mine(args, &mut cnt) {
            continue;
        }
        let pick = |rng: &mut SmallRng, ks: &Vec<Vec<i64>>| ks[rng.gen_range(0..ks.len())].clone();
        // declared + computed mutations over a few keys around the read start
        let start = pick(rng, &keys);
        let mut near = vec![start.clone()];
        let mut k = start.clone();
        for _ in 0..3 {
            match crate::obs::next_key(k.clone()) {
                Some(nk) => {
                    near.push(nk.clone());
                    k = nk;
                }
                None => break,
            }
        }
        let mut decl = vec![];
        let mut comp = vec![];
        let mut used: Vec<Vec<i64>> = vec![];
        for _ in 0..rng.gen_range(0..4) {
            let key = if rng.gen_bool(0.8) { near[rng.gen_range(0..near.len())].clone() } else { pick(rng, &keys) };
            if used.contains(&key) && rng.gen_range(0..6) != 0 {
                continue;
            }
            used.push(key.clone());
            let val = values[rng.gen_range(0..values.len())].clone();
            if rng.gen_bool(0.5) {
                decl.push((key, val));
            } else {
                comp.push((key, val));
            }
        }
        let ext = rng.gen_bool(0.4);
        let count_words = [0i64, 1, 2, 3, 4];
        let c = count_words[rng.gen_range(0..5)];
        let mut specs: Vec<NodeSpec> = (0..5).map(|_| NodeSpec::default()).collect();
        specs[1].leaf = Leaf::Data(encode_muts(&comp));
        specs[1].report = false;
        specs[2].reads.push(read(true, if ext { Some(1101) } else { None }, &start, c));
        if rng.gen_bool(0.3) {
            specs[2].reads.push(read(true, None, &pick(rng, &keys), rng.gen_range(0..3)));
        }
        specs[4].reads.push(read(false, if ext { Some(1101) } else { None }, &start, c));
        let mut pre = vec![];
        for key in near.iter().chain(keys.iter().take(3)) {
            if rng.gen_bool(0.5) {
                let owner = if rng.gen_bool(0.5) { 1001 } else { 1101 };
                pre.push((owner, key.clone(), vec![rng.gen_range(20..30)]));
            }
        }
        // a second solution for the external contract proposes mutations there
        let mut case = single_case(pred.clone(), &specs, i % 2 == 0, false, decl, pre);
        if ext || rng.gen_bool(0.3) {
            let base = case.progs.len();
            case.progs.push(ProgD { bad: None, ops: node_program(1, 0, true, &NodeSpec::default()) });
            case.preds.push(PredD { nodes: vec![(LEAF, base)], edges: vec![] });
            let key = near[rng.gen_range(0..near.len())].clone();
            let val = values[rng.gen_range(0..values.len())].clone();
            case.sols.push(SolD { contract: 1101, pred: 1, predw: 2021, pdata: vec![], decl: vec![(key, val)] });
        }
        emit(b, &format!("overlay/{i}"), &case);
    }
}

/// C04: sets of solutions and their permutations - verdict, gas, computed mutations per solution
/// (the specification is evaluated on every permutation; equality up to the permutation is checked
/// here as well, because it needs no specification).
fn perm(args: &Args, b: &mut Batcher, rng: &mut SmallRng) {
    let count = if args.thorough { 3000 } else { 400 } / args.shard.1.max(1);
    for i in 0..count {
        let nsol = rng.gen_range(1..5usize);
        // a set is a multiset: every fourth case holds the same solution twice (such a set passes set
        // validation when the repeated solution proposes no mutation), e.g. [A, A, B] vs [A, B, A]
        let dup = nsol >= 2 && i % 4 == 3;
        let keys: Vec<Vec<i64>> = vec![vec![1], vec![2]];
        let vals: Vec<Vec<i64>> = vec![vec![5], vec![6], vec![]];
        let mut preds = vec![];
        let mut progs = vec![];
        let mut sols = vec![];
        for s in 0..nsol {
            // predicate: root -> leaf(data: computed mutation) ; post-reading root -> reporting leaf
            let mut comp: Vec<(Vec<i64>, Vec<i64>)> = if rng.gen_bool(0.5) { vec![(keys[rng.gen_range(0..2)].clone(), vals[rng.gen_range(0..3)].clone())] } else { vec![] };
            if dup && s == 0 && i % 8 == 3 {
                comp.clear();
            }
            let mut specs: Vec<NodeSpec> = (0..4).map(|_| NodeSpec::default()).collect();
            specs[1].leaf = Leaf::Data(encode_muts(&comp));
            specs[1].report = false;
            specs[2].reads.push(read(true, None, &[1], 2));
            let pred = PredD { nodes: vec![(0, 0), (LEAF, 0), (1, 0), (LEAF, 0)], edges: vec![1, 3] };
            let mut p = pred.clone();
            for k in 0..4 {
                let leaf = is_leaf_enc(&pred, k).unwrap();
                p.nodes[k].1 = progs.len();
                // reports carry the predicate id (stable under permutation), not the solution index
                progs.push(ProgD { bad: None, ops: node_program(50 + s, k, leaf, &specs[k]) });
            }
            preds.push(p);
            let mut decl = if rng.gen_bool(0.5) { vec![(keys[rng.gen_range(0..2)].clone(), vals[rng.gen_range(0..3)].clone())] } else { vec![] };
            if dup && s == 0 {
                decl.clear();
            }
            sols.push(SolD { contract: if rng.gen_bool(0.7) { 1001 } else { 1101 }, pred: s, predw: 2001 + 10 * s as i64, pdata: vec![], decl });
        }
        if dup {
            sols[1] = sols[0].clone();
        }
        let base = Case { sols, preds, progs, pre: vec![(1001, vec![1], vec![31]), (1101, vec![2], vec![32])], all: false };
        let mut orders: Vec<Vec<usize>> = vec![(0..nsol).collect()];
        for _ in 0..3 {
            let mut o: Vec<usize> = (0..nsol).collect();
            o.shuffle(rng);
            if !orders.contains(&o) {
                orders.push(o);
            }
        }
        let mut results = vec![];
        for (oi, o) in orders.iter().enumerate() {
            let mut c = base.clone();
            c.sols = o.iter().map(|k| base.sols[*k].clone()).collect();
            let r = emit(b, &format!("perm/{}/{i}/{oi}", args.shard.0), &c);
            // normalise to the base order
            let norm = match &r.obs {
                Obs::Ok { gas, muts } => {
                    let mut m = vec![vec![]; nsol];
                    for (pos, k) in o.iter().enumerate() {
                        m[*k] = muts[pos].clone();
                    }
                    format!("ok {gas} {m:?}")
                }
                Obs::Failed(_) => "failed".to_string(),
                other => format!("{other:?}"),
            };
            // what the post-state readers saw must not depend on the order either
            let mut seen: Vec<Vec<i64>> = r.marks.clone();
            seen.sort();
            let norm = format!("{norm} saw={seen:?}");
            let (set, _, _) = build(&c);
            let valid = essential_check::solution::check_set(&set).is_ok();
            results.push((norm, r.content_addr, valid));
        }
        // only sets accepted by set validation are in the property's scope
        let same = !results[0].2 || results.windows(2).all(|w| w[0] == w[1]);
        b.count(if same { "perm_same" } else { "perm_DIFFERENT" }, 1);
        if !same {
            b.samples.push(json!({"DIFFERENT": results.iter().map(|r| r.0.clone()).collect::<Vec<_>>(), "case": raw_case(&base)}));
        }
    }
}

/// C06: data outputs that are not valid mutation encodings, bad programs, absurd read counts.
fn decode(args: &Args, b: &mut Batcher, rng: &mut SmallRng) {
    let mut cnt = 0u64;
    let alphabet = [-1i64, 0, 1, 2, 3, 5, i64::MAX];
    let maxlen = if args.thorough { 5 } else { 4 };
    let mut strings: Vec<Vec<i64>> = vec![vec![]];
    let mut level: Vec<Vec<i64>> = vec![vec![]];
    for _ in 0..maxlen {
        let mut next = vec![];
        for s in &level {
            for a in alphabet {
                let mut t = s.clone();
                t.push(a);
                next.push(t);
            }
        }
        strings.extend(next.iter().cloned());
        level = next;
    }
    let pred = PredD { nodes: vec![(0, 0), (LEAF, 0)], edges: vec![1] };
    for (i, mem) in strings.iter().enumerate() {
        if !mine(args, &mut cnt) {
            continue;
        }
        let mut specs: Vec<NodeSpec> = (0..2).map(|_| NodeSpec::default()).collect();
        specs[1].leaf = Leaf::Data(mem.clone());
        specs[1].report = false;
        let case = single_case(pred.clone(), &specs, false, false, vec![(vec![9], vec![4])], vec![]);
        emit(b, &format!("decode/mem/{i}"), &case);
    }
    // bad programs at each position, absurd counts for post reads on a mutated contract
    for bad in [vec![0x00u8], vec![0xFF], vec![0x01, 0x02], vec![0x02, 0x01, 0, 0, 0]] {
        for pos in 0..2 {
            if !mine(args, &mut cnt) {
                continue;
            }
            let specs: Vec<NodeSpec> = (0..2).map(|_| NodeSpec::default()).collect();
            let mut case = single_case(pred.clone(), &specs, pos == 0, false, vec![], vec![]);
            case.progs[pos] = ProgD { bad: Some(bad.clone()), ops: vec![] };
            emit(b, &format!("decode/badprog/{pos}/{:?}", bad), &case);
        }
    }
    for count in [0i64, 5, 4000, i64::MAX, i64::MIN, -1] {
        for key in [vec![], vec![i64::MAX], vec![i64::MAX, i64::MAX]] {
            for post in [true, false] {
                if !mine(args, &mut cnt) {
                    continue;
                }
                let mut specs: Vec<NodeSpec> = (0..2).map(|_| NodeSpec::default()).collect();
                specs[0].reads.push(read(post, None, &key, count));
                let case = single_case(pred.clone(), &specs, false, false, vec![(vec![i64::MAX], vec![1])], vec![(1001, vec![i64::MAX], vec![3])]);
                emit(b, &format!("decode/count/{count}/{}/{post}", key.len()), &case);
            }
        }
    }
    let _ = rng;
}


/// C02: the same case under thread pools of 1..16 workers and under schedule perturbations that
/// make tasks finish in reverse index order / in random order.  Every run is validated against
/// the (deterministic) specification and the runs are compared with each other.
fn sched(args: &Args, b: &mut Batcher, rng: &mut SmallRng) {
    let count = if args.thorough { 160 } else { 40 } / args.shard.1.max(1);
    let pools: Vec<usize> = if args.thorough { vec![1, 2, 3, 4, 8, 16] } else { vec![1, 2, 4, 16] };
    for i in 0..count {
        // 2-3 solutions; predicates with wide levels (several roots feeding several leaves), a node
        // with a Compute whose children tick, data outputs (order of computed mutations), failures
        let nsol = rng.gen_range(2..4usize);
        let mut preds = vec![];
        let mut progs = vec![];
        let mut sols = vec![];
        for s in 0..nsol {
            let roots = rng.gen_range(2..5usize);
            let leaves = rng.gen_range(2..4usize);
            // roots 0..roots-1 each point to every leaf (numbered after the roots, or before: shuffled)
            let n = roots + leaves;
            let mut ids: Vec<usize> = (0..n).collect();
            ids.shuffle(rng);
            let (rids, lids) = ids.split_at(roots);
            let mut nodes = vec![(LEAF, 0usize); n];
            let mut edges: Vec<u16> = vec![];
            // edge lists must be laid out in node-index order for the CSR encoding
            for k in 0..n {
                if rids.contains(&k) {
                    nodes[k].0 = edges.len() as u16;
                    for l in lids {
                        edges.push(*l as u16);
                    }
                }
            }
            let pred = PredD { nodes: nodes.clone(), edges };
            let mut p = pred.clone();
            // every third case: two roots (or two leaves) of this solution fail
            let force_fail: Vec<usize> = if i % 3 == 0 && s == 0 {
                let pool = if rng.gen_bool(0.5) { rids } else { lids };
                let mut v: Vec<usize> = pool.to_vec();
                v.shuffle(rng);
                v.truncate(2);
                v
            } else {
                vec![]
            };
            for k in 0..n {
                let leaf = lids.contains(&k);
                let mut spec = NodeSpec { tick: true, ..Default::default() };
                if !leaf && rng.gen_bool(0.5) {
                    // a Compute of 3 children: each ticks with its index and allocates index+1 words
                    let mut e = vec![push(3), by("COM")];
                    e.extend([by("DUP"), push(1000 + k as i64), by("SWAP"), push(TICK), push(3), push(0), push(0), by("KRNG")]);
                    e.extend([by("DUP"), push(1), by("ADD"), by("ALOC"), by("POP"), by("COME")]);
                    spec.extra = e;
                }
                if force_fail.contains(&k) {
                    // two tasks of one level fail: which one is reported must not depend on who finishes first
                    if leaf { spec.leaf = Leaf::Error } else { spec.fail = true }
                } else if leaf {
                    spec.leaf = match rng.gen_range(0..24) {
                        0 => Leaf::False,
                        1 => Leaf::Error,
                        2..=9 => Leaf::Data(encode_muts(&[(vec![s as i64, k as i64], vec![k as i64])])),
                        _ => Leaf::True,
                    };
                    spec.report = !matches!(spec.leaf, Leaf::Data(_)) || rng.gen_bool(0.5);
                    // some constraint leaves read the post-state: they are deferred to the second
                    // pass, where they start from their (first-pass) parents' outputs taken from the
                    // per-solution cache - outputs that differ from solution to solution
                    if matches!(spec.leaf, Leaf::True) && rng.gen_range(0..3) == 0 {
                        spec.reads.push(read(true, None, &[s as i64, k as i64], 1));
                    }
                } else if rng.gen_range(0..40) == 0 {
                    spec.fail = true;
                }
                p.nodes[k].1 = progs.len();
                progs.push(ProgD { bad: None, ops: node_program(s, k, leaf, &spec) });
            }
            preds.push(p);
            sols.push(SolD { contract: 1001 + 100 * s as i64, pred: s, predw: 2001 + 10 * s as i64, pdata: vec![], decl: vec![] });
        }
        let case = Case { sols, preds, progs, pre: vec![], all: rng.gen_bool(0.5) };
        let mut results: Vec<(String, String)> = vec![];
        for pool in &pools {
            for strat in ["none", "reverse", "random"] {
                if *pool == 1 && strat != "none" {
                    continue;
                }
                let seed: u64 = rng.gen();
                let st = strat.to_string();
                let delay: Option<Arc<dyn Fn(&[i64]) -> std::time::Duration + Send + Sync>> = match strat {
                    "none" => None,
                    _ => Some(Arc::new(move |key: &[i64]| {
                        if key.last() != Some(&TICK) && key.last() != Some(&TAG) {
                            return std::time::Duration::ZERO;
                        }
                        // key = [.., a, b, TICK]: b is the node index or the compute index
                        let bidx = key.get(key.len().wrapping_sub(2)).copied().unwrap_or(0).rem_euclid(16) as u64;
                        let us = if st == "reverse" { (16 - bidx) * 150 } else { (seed ^ (bidx * 0x9E37)) % 1500 };
                        std::time::Duration::from_micros(us)
                    })),
                };
                let tp = rayon::ThreadPoolBuilder::new().num_threads(*pool).build().expect("pool");
                let r = tp.install(|| run_case_with(&case, delay));
                let label = format!("sched/{}/{i}/p{pool}/{strat}", args.shard.0);
                let sig = format!("{:?}", r.obs);
                let r = emit_result(b, &label, &case, r);
                let _ = r;
                results.push((label, sig));
            }
        }
        let same = results.windows(2).all(|w| w[0].1 == w[1].1);
        b.count(if same { "sched_same" } else { "sched_DIFFERENT" }, 1);
        if !same {
            b.samples.push(json!({"DIFFERENT": results, "case": raw_case(&case)}));
        }
    }
}


/// Inverse of `raw_case` (replay files).
pub fn case_from_raw(v: &serde_json::Value) -> Case {
    let ws = |x: &serde_json::Value| -> Vec<i64> { x.as_array().map(|a| a.iter().filter_map(|y| y.as_i64()).collect()).unwrap_or_default() };
    let kv = |x: &serde_json::Value| -> (Vec<i64>, Vec<i64>) { (ws(&x[0]), ws(&x[1])) };
    Case {
        sols: v["sols"].as_array().unwrap().iter().map(|s| SolD {
            contract: s["contract"].as_i64().unwrap(),
            pred: s["pred"].as_u64().unwrap() as usize,
            predw: s["predw"].as_i64().unwrap(),
            pdata: s["pdata"].as_array().unwrap().iter().map(ws).collect(),
            decl: s["decl"].as_array().unwrap().iter().map(kv).collect(),
        }).collect(),
        preds: v["preds"].as_array().unwrap().iter().map(|p| PredD {
            nodes: p["nodes"].as_array().unwrap().iter().map(|n| (n[0].as_u64().unwrap() as u16, n[1].as_u64().unwrap() as usize)).collect(),
            edges: p["edges"].as_array().unwrap().iter().map(|e| e.as_u64().unwrap() as u16).collect(),
        }).collect(),
        progs: v["progs"].as_array().unwrap().iter().map(|p| ProgD {
            bad: p["bad"].as_array().map(|b| b.iter().map(|x| x.as_u64().unwrap() as u8).collect()),
            ops: p["ops"].as_array().unwrap().iter().filter_map(ops::op_from_raw).collect(),
        }).collect(),
        pre: v["pre"].as_array().unwrap().iter().map(|e| (e[0].as_i64().unwrap(), ws(&e[1]), ws(&e[2]))).collect(),
        all: v["all"].as_bool().unwrap_or(false),
    }
}


/// C01: every DAG on 4 labelled nodes (543 graphs - all shapes under all 24 numberings), each with
/// a post-state read placed on every node in turn (quick: two placements per graph): exercises the
/// mix of per-pass and cross-pass cached parents for every relative numbering.
fn dag4(args: &Args, b: &mut Batcher) {
    let mut cnt = 0u64;
    let pairs: Vec<(usize, usize)> = (0..4).flat_map(|a| (0..4).filter(move |c| *c != a).map(move |c| (a, c))).collect();
    for mask in 0u32..(1 << pairs.len()) {
        let es: Vec<(usize, usize)> = pairs.iter().enumerate().filter(|(i, _)| mask & (1 << i) != 0).map(|(_, p)| *p).collect();
        // acyclic?
        let mut indeg = [0usize; 4];
        for (_, c) in &es {
            indeg[*c] += 1;
        }
        let mut left: Vec<usize> = (0..4).collect();
        let mut ok = true;
        while !left.is_empty() {
            match left.iter().position(|n| indeg[*n] == 0) {
                None => {
                    ok = false;
                    break;
                }
                Some(i) => {
                    let n = left.remove(i);
                    for (a, c) in &es {
                        if *a == n {
                            indeg[*c] -= 1;
                        }
                    }
                }
            }
        }
        if !ok {
            continue;
        }
        let mut nodes = vec![];
        let mut edges: Vec<u16> = vec![];
        for n in 0..4 {
            let ch: Vec<u16> = es.iter().filter(|(a, _)| *a == n).map(|(_, c)| *c as u16).collect();
            if ch.is_empty() {
                nodes.push((LEAF, 0usize));
            } else {
                nodes.push((edges.len() as u16, 0));
                edges.extend(ch);
            }
        }
        let pred = PredD { nodes, edges };
        for postn in 0..4usize {
            if !mine(args, &mut cnt) {
                continue;
            }
            if !args.thorough && (postn + mask as usize) % 2 != 0 {
                continue;
            }
            let mut specs: Vec<NodeSpec> = (0..4).map(|_| NodeSpec::default()).collect();
            specs[postn].reads.push(read(true, None, &[7], 1));
            let case = single_case(pred.clone(), &specs, mask % 2 == 0, false, vec![(vec![7], vec![70])], vec![(1001, vec![7], vec![1])]);
            emit(b, &format!("dag4/{mask}/post{postn}"), &case);
        }
    }
}
