//! C06 (decoders) / C17 (content addresses) / C18 (codecs): wire formats of crates/types and
//! crates/hash.
//!   --mode wire       predicates, mutation lists, arbitrary word / byte strings through the real
//!                     encoders / decoders; one event per case for spec/trace/TraceCodecs.tla
//!   --mode addr-gen   abstract values + the addresses the real crates compute for them
//!   --mode addr-check compares those addresses with SHA-256 of the pre-images TLC derived from
//!                     the specification (oracle evaluation, DESIGN.md section 2)
//!   --mode serde      round trips of every public type through serde_json, postcard,
//!                     Display/FromStr, legacy field names

use super::Batcher;
use crate::jv::{ji, js, jw, jww, J};
use crate::Args;
use essential_types::{
    contract::{Contract, SignedContract},
    convert,
    predicate::{Node, Predicate, Program},
    solution::{decode, encode, Mutation, Solution, SolutionSet},
    ContentAddress, PredicateAddress, Signature,
};
use rand::rngs::SmallRng;
use rand::{Rng, SeedableRng};
use serde_json::json;
use sha2::Digest;

fn jb(bs: &[u8]) -> J {
    J::A(bs.iter().map(|b| J::I(*b as i64)).collect())
}
fn caught<T>(f: impl FnOnce() -> T) -> Result<T, String> {
    std::panic::catch_unwind(std::panic::AssertUnwindSafe(f)).map_err(|p| {
        p.downcast_ref::<String>().cloned().or_else(|| p.downcast_ref::<&str>().map(|s| s.to_string())).unwrap_or_else(|| "panic".into())
    })
}

fn pred_json(p: &Predicate) -> Vec<(&'static str, J)> {
    vec![
        ("nodes", J::A(p.nodes.iter().map(|n| J::O(vec![("es", ji(n.edge_start as usize)), ("prog", jb(&n.program_address.0))])).collect())),
        ("edges", J::A(p.edges.iter().map(|e| ji(*e as usize)).collect())),
    ]
}

fn pred_event(p: &Predicate) -> J {
    let mut f = vec![("e", js("pred"))];
    f.extend(pred_json(p));
    let enc: Option<Vec<u8>> = p.encode().ok().map(|i| i.collect());
    f.push(("enc_ok", J::B(enc.is_some())));
    f.push(("size", ji(p.encoded_size())));
    if let Some(enc) = &enc {
        f.push(("enc", jb(enc)));
        let dec = caught(|| Predicate::decode(enc));
        f.push(("dec_same", J::B(matches!(&dec, Ok(Ok(q)) if q == p))));
    }
    let ne: Vec<J> = (0..=p.nodes.len())
        .map(|i| match p.node_edges(i) {
            Some(es) => J::O(vec![("some", J::B(true)), ("es", J::A(es.iter().map(|e| ji(*e as usize)).collect()))]),
            None => J::O(vec![("some", J::B(false)), ("es", J::A(vec![]))]),
        })
        .collect();
    f.push(("ne", J::A(ne)));
    J::O(f)
}

fn predbig_event(nn: usize, ne: usize) -> J {
    let p = Predicate {
        nodes: (0..nn).map(|i| Node { edge_start: if i % 2 == 0 { u16::MAX } else { 0 }, program_address: ContentAddress([i as u8; 32]) }).collect(),
        edges: (0..ne).map(|i| (i % 7) as u16).collect(),
    };
    let enc: Option<Vec<u8>> = p.encode().ok().map(|i| i.collect());
    let mut f = vec![("e", js("predbig")), ("nn", ji(nn)), ("ne", ji(ne)), ("enc_ok", J::B(enc.is_some())), ("size", ji(p.encoded_size()))];
    if let Some(enc) = &enc {
        f.push(("enc_len", ji(enc.len())));
        f.push(("dec_same", J::B(Predicate::decode(enc).map(|q| q == p).unwrap_or(false))));
        f.push(("addr_nonzero", J::B(essential_hash::content_addr(&p).0 != [0; 32])));
    } else {
        // an unencodable predicate hashes to the zero address
        f.push(("addr_zero", J::B(essential_hash::content_addr(&p).0 == [0; 32])));
    }
    J::O(f)
}

fn decp_event(bytes: &[u8]) -> J {
    let r = caught(|| Predicate::decode(bytes));
    let mut f = vec![("e", js("decp")), ("b", jb(bytes))];
    match r {
        Err(_) => f.push(("panic", J::B(true))),
        Ok(Err(_)) => f.push(("ok", J::B(false))),
        Ok(Ok(p)) => {
            f.push(("ok", J::B(true)));
            f.push(("p", J::O(pred_json(&p))));
        }
    }
    J::O(f)
}

fn muts_j(ms: &[Mutation]) -> J {
    J::A(ms.iter().map(|m| J::O(vec![("key", jw(&m.key)), ("value", jw(&m.value))])).collect())
}

fn muts_event(ms: &[Mutation]) -> J {
    let enc: Vec<i64> = encode::encode_mutations(ms).collect();
    let dec = caught(|| decode::decode_mutations(&enc));
    let singles_ok = ms.iter().all(|m| {
        let e: Vec<i64> = m.encode().collect();
        e.len() == m.encode_size() && Mutation::decode_mutation(&e).map(|d| &d == m).unwrap_or(false)
    });
    J::O(vec![
        ("e", js("muts")),
        ("ms", muts_j(ms)),
        ("enc", jw(&enc)),
        ("dec_same", J::B(matches!(&dec, Ok(Ok(d)) if d == ms))),
        ("singles_ok", J::B(singles_ok)),
    ])
}

fn decm_event(ws: &[i64]) -> J {
    let one = caught(|| Mutation::decode_mutation(ws));
    let many = caught(|| decode::decode_mutations(ws));
    let mut f = vec![("e", js("decm")), ("ws", jw(ws))];
    let errname = |e: &decode::MutationDecodeError| format!("{e:?}");
    f.push(("one", match one {
        Err(_) => J::O(vec![("panic", J::B(true))]),
        Ok(Err(e)) => J::O(vec![("ok", J::B(false)), ("err", js(&errname(&e)))]),
        Ok(Ok(m)) => J::O(vec![("ok", J::B(true)), ("m", J::O(vec![("key", jw(&m.key)), ("value", jw(&m.value))]))]),
    }));
    f.push(("many", match many {
        Err(_) => J::O(vec![("panic", J::B(true))]),
        Ok(Err(e)) => J::O(vec![("ok", J::B(false)), ("err", js(&errname(&e)))]),
        Ok(Ok(ms)) => J::O(vec![("ok", J::B(true)), ("ms", muts_j(&ms))]),
    }));
    J::O(f)
}

fn limbs(w: i64) -> J {
    let u = w as u64;
    J::A((0..4).rev().map(|k| J::I(((u >> (16 * k)) & 0xFFFF) as i64)).collect())
}

fn conv_event(ws: [i64; 8]) -> J {
    let w = ws[0];
    let b8 = convert::bytes_from_word(w);
    let w4 = [ws[0], ws[1], ws[2], ws[3]];
    let b32 = convert::u8_32_from_word_4(w4);
    let b64 = convert::u8_64_from_word_8(ws);
    let hex = convert::hex_str_from_words(&ws);
    let ca = ContentAddress(b32);
    let ca_words: [i64; 4] = ca.clone().into();
    J::O(vec![
        ("e", js("conv")),
        ("limbs", J::A(ws.iter().map(|w| limbs(*w)).collect())),
        ("b8", jb(&b8)),
        ("w_back", J::B(convert::word_from_bytes(b8) == w && convert::word_from_bytes_slice(&b8) == w)),
        ("b32", jb(&b32)),
        ("w4_back", J::B(convert::word_4_from_u8_32(b32) == w4 && ca_words == w4 && ContentAddress::from(w4) == ca)),
        ("b64", jb(&b64)),
        ("w8_back", J::B(convert::word_8_from_u8_64(b64) == ws)),
        ("hex_back", J::B(convert::words_from_hex_str(&hex).map(|v| v == ws).unwrap_or(false))),
        ("hex_len", ji(hex.len())),
        ("bytes_back", J::B(convert::u8_32_from_word_4(convert::word_4_from_u8_32(b32)) == b32 && convert::u8_64_from_word_8(convert::word_8_from_u8_64(b64)) == b64)),
    ])
}

fn rand_pred(rng: &mut SmallRng, maxn: usize) -> Predicate {
    let nn = rng.gen_range(0..maxn + 1);
    let ne = rng.gen_range(0..maxn + 1);
    Predicate {
        nodes: (0..nn)
            .map(|_| Node {
                edge_start: match rng.gen_range(0..5) { 0 => u16::MAX, 1 => rng.gen_range(0..(ne as u16 + 3)), _ => rng.gen_range(0..(ne as u16 + 1)) },
                program_address: ContentAddress(if rng.gen_bool(0.5) { [rng.gen_range(0..3); 32] } else { rng.gen() }),
            })
            .collect(),
        edges: (0..ne).map(|_| rng.gen_range(0..(nn as u16 + 2))).collect(),
    }
}

fn rw(rng: &mut SmallRng) -> i64 {
    match rng.gen_range(0..12) { 0 => i64::MAX, 1 => i64::MIN, 2 => -1, 3 => i64::MAX - 1, 4 => i64::MIN + 1, _ => rng.gen_range(-3..40) }
}
fn rvec(rng: &mut SmallRng, n: usize) -> Vec<i64> {
    (0..rng.gen_range(0..n + 1)).map(|_| rw(rng)).collect()
}

pub fn main(args: &Args) -> i32 {
    let mode = args.extra.get("mode").cloned().unwrap_or_else(|| "wire".into());
    let mut rng = SmallRng::seed_from_u64(args.seed ^ 0xC0DE ^ (args.shard.0 << 16));
    match mode.as_str() {
        "wire" => wire(args, &mut rng),
        "addr-gen" => addr_gen(args, &mut rng),
        "addr-check" => addr_check(args),
        "serde" => serde_mode(args, &mut rng),
        _ => 2,
    }
}

fn wire(args: &Args, rng: &mut SmallRng) -> i32 {
    let mut b = Batcher::new(&args.out, "codecs_wire", 3000);
    let mut n = 0u64;
    let mut push = |b: &mut Batcher, label: String, ev: J| {
        n += 1;
        if n % args.shard.1 == args.shard.0 {
            b.push_run(&label, vec![ev], json!({"label": label}));
        }
    };
    // exhaustive small predicates
    let es_opts = [0u16, 1, 2, u16::MAX];
    for nn in 0..=2usize {
        for ne in 0..=2usize {
            let ncomb = es_opts.len().pow(nn as u32) * 3usize.pow(ne as u32);
            for c in 0..ncomb {
                let mut x = c;
                let nodes = (0..nn).map(|i| { let es = es_opts[x % 4]; x /= 4; Node { edge_start: es, program_address: ContentAddress([i as u8 + 1; 32]) } }).collect();
                let edges = (0..ne).map(|_| { let e = (x % 3) as u16; x /= 3; e }).collect();
                let p = Predicate { nodes, edges };
                push(&mut b, format!("pred/s/{nn}/{ne}/{c}"), super::guarded(|| pred_event(&p)));
            }
        }
    }
    let count = if args.thorough { 20000 } else { 500 };
    for i in 0..count {
        let p = rand_pred(rng, if i % 20 == 0 { 40 } else { 6 });
        push(&mut b, format!("pred/r/{i}"), super::guarded(|| pred_event(&p)));
        // decode arbitrary / mutated bytes
        let mut bytes: Vec<u8> = p.encode().map(|i| i.collect()).unwrap_or_default();
        match rng.gen_range(0..5) {
            0 if !bytes.is_empty() => { let k = rng.gen_range(0..bytes.len()); bytes.truncate(k); }
            1 if !bytes.is_empty() => { let k = rng.gen_range(0..bytes.len().min(4)); bytes[k] = rng.gen_range(0..4); }
            2 => bytes.extend((0..rng.gen_range(0..5)).map(|_| rng.gen::<u8>())),
            3 => bytes = (0..rng.gen_range(0..12)).map(|_| rng.gen_range(0..3)).collect(),
            _ => {}
        }
        if bytes.len() <= 600 {
            push(&mut b, format!("decp/{i}"), super::guarded(|| decp_event(&bytes)));
        }
    }
    for (nn, ne) in [(999usize, 1usize), (1000, 1000), (1001, 0), (0, 1001), (1000, 1001), (1001, 1001), (0, 0)] {
        push(&mut b, format!("predbig/{nn}/{ne}"), super::guarded(|| predbig_event(nn, ne)));
    }
    // mutation lists
    for i in 0..count {
        let ms: Vec<Mutation> = (0..rng.gen_range(0..4)).map(|_| Mutation { key: rvec(rng, 3), value: rvec(rng, 3) }).collect();
        push(&mut b, format!("muts/{i}"), super::guarded(|| muts_event(&ms)));
    }
    // every word string of length <= 4 (thorough 5) over the boundary alphabet through the decoders
    let alpha = [-1i64, 0, 1, 2, 3, 5, i64::MAX];
    let mut level: Vec<Vec<i64>> = vec![vec![]];
    push(&mut b, "decm/empty".into(), decm_event(&[]));
    for _ in 0..(if args.thorough { 5 } else { 4 }) {
        let mut next = vec![];
        for s in &level {
            for a in alpha {
                let mut t = s.clone();
                t.push(a);
                push(&mut b, format!("decm/{:?}", t), super::guarded(|| decm_event(&t)));
                next.push(t);
            }
        }
        level = next;
    }
    for i in 0..count {
        // valid encodings with one length field perturbed
        let ms: Vec<Mutation> = (0..rng.gen_range(1..4)).map(|_| Mutation { key: rvec(rng, 3), value: rvec(rng, 3) }).collect();
        let mut enc: Vec<i64> = encode::encode_mutations(&ms).collect();
        let k = rng.gen_range(0..enc.len());
        enc[k] = match rng.gen_range(0..5) { 0 => enc[k].wrapping_add(1), 1 => enc[k].wrapping_sub(1), 2 => 0, 3 => -1, _ => i64::MAX };
        push(&mut b, format!("decm/pert/{i}"), super::guarded(|| decm_event(&enc)));
    }
    // conversions
    for i in 0..count {
        let mut ws = [0i64; 8];
        for w in ws.iter_mut() {
            *w = match rng.gen_range(0..6) { 0 => rw(rng), 1 => 1i64 << rng.gen_range(0..63), _ => rng.gen() };
        }
        push(&mut b, format!("conv/{i}"), super::guarded(|| conv_event(ws)));
    }
    b.finish(json!({"driver": "codecs", "mode": "wire"}))
}

// ---------------------------------------------------------------------------------------------
// C17: addresses

fn sol_abstract(s: &Solution) -> serde_json::Value {
    json!({"contract": s.predicate_to_solve.contract.0.to_vec(), "predicate": s.predicate_to_solve.predicate.0.to_vec(),
           "pdata": s.predicate_data, "muts": s.state_mutations.iter().map(|m| json!({"key": m.key, "value": m.value})).collect::<Vec<_>>()})
}
fn pred_abstract(p: &Predicate) -> serde_json::Value {
    json!({"nodes": p.nodes.iter().map(|n| json!({"es": n.edge_start, "prog": n.program_address.0.to_vec()})).collect::<Vec<_>>(), "edges": p.edges})
}

fn rand_solution(rng: &mut SmallRng) -> Solution {
    Solution {
        predicate_to_solve: PredicateAddress { contract: ContentAddress([rng.gen_range(0..3); 32]), predicate: ContentAddress(rng.gen()) },
        predicate_data: (0..rng.gen_range(0..3)).map(|_| rvec(rng, 3)).collect(),
        state_mutations: (0..rng.gen_range(0..3)).map(|_| Mutation { key: rvec(rng, 2), value: rvec(rng, 3) }).collect(),
    }
}

/// Writes values.ndjson (abstract values, compressed words, for TLC) and real.json (addresses
/// computed by the real crates, keyed by case id).
fn addr_gen(args: &Args, rng: &mut SmallRng) -> i32 {
    let count = if args.thorough { 16000 } else { 400 };
    let mut events = vec![];
    let mut real = serde_json::Map::new();
    let hex = |a: &ContentAddress| hex::encode(a.0);
    for i in 0..count {
        let id = format!("c{i}");
        match i % 4 {
            0 => {
                let p = rand_pred(rng, if i % 40 == 0 { 30 } else { 4 });
                events.push(J::O(vec![("e", js("pred")), ("id", js(&id)), ("p", J::O(pred_json(&p)))]));
                real.insert(id, json!({"kind": "pred", "addr": hex(&essential_hash::content_addr(&p)), "abstract": pred_abstract(&p)}));
            }
            1 => {
                let s = rand_solution(rng);
                events.push(J::O(vec![
                    ("e", js("sol")), ("id", js(&id)),
                    ("s", J::O(vec![("contract", jb(&s.predicate_to_solve.contract.0)), ("predicate", jb(&s.predicate_to_solve.predicate.0)),
                                    ("pdata", jww(&s.predicate_data)), ("muts", muts_j(&s.state_mutations))])),
                ]));
                let ser = essential_hash::serialize(&s);
                real.insert(id, json!({"kind": "sol", "addr": hex(&essential_hash::content_addr(&s)), "ser_len": ser.len(), "abstract": sol_abstract(&s)}));
            }
            2 => {
                // contract: members + salt, all permutations must agree
                let k = rng.gen_range(0..4);
                let mut preds: Vec<Predicate> = (0..k).map(|_| rand_pred(rng, 3)).collect();
                if k >= 2 && rng.gen_bool(0.3) {
                    preds[1] = preds[0].clone();
                }
                let salt: [u8; 32] = if rng.gen_bool(0.5) { [0; 32] } else { rng.gen() };
                let c = Contract { predicates: preds.clone(), salt };
                let base = essential_hash::content_addr(&c);
                let mut perm_same = true;
                for _ in 0..4 {
                    let mut q = preds.clone();
                    use rand::seq::SliceRandom;
                    q.shuffle(rng);
                    let c2 = Contract { predicates: q.clone(), salt };
                    perm_same &= essential_hash::content_addr(&c2) == base;
                    let addrs: Vec<ContentAddress> = q.iter().map(essential_hash::content_addr).collect();
                    perm_same &= essential_hash::contract_addr::from_predicate_addrs(addrs.clone(), &salt) == base;
                    let mut a2 = addrs.clone();
                    perm_same &= essential_hash::contract_addr::from_predicate_addrs_slice(&mut a2, &salt) == base;
                    perm_same &= essential_hash::contract_addr::from_contract(&c2) == base;
                }
                events.push(J::O(vec![("e", js("contract")), ("id", js(&id)),
                    ("members", J::A(preds.iter().map(|p| J::O(pred_json(p))).collect())), ("salt", jb(&salt))]));
                real.insert(id, json!({"kind": "contract", "addr": hex(&base), "perm_same": perm_same,
                                       "abstract": {"members": preds.iter().map(pred_abstract).collect::<Vec<_>>(), "salt": salt.to_vec()}}));
            }
            _ => {
                let k = rng.gen_range(0..4);
                let mut sols: Vec<Solution> = (0..k).map(|_| rand_solution(rng)).collect();
                if k >= 2 && rng.gen_bool(0.3) {
                    sols[1] = sols[0].clone();
                }
                let set = SolutionSet { solutions: sols.clone() };
                let base = essential_hash::content_addr(&set);
                let mut perm_same = true;
                for _ in 0..4 {
                    let mut q = sols.clone();
                    use rand::seq::SliceRandom;
                    q.shuffle(rng);
                    perm_same &= essential_hash::content_addr(&SolutionSet { solutions: q.clone() }) == base;
                    let addrs: Vec<ContentAddress> = q.iter().map(essential_hash::content_addr).collect();
                    perm_same &= essential_hash::solution_set_addr::from_solution_addrs(addrs.clone()) == base;
                    let mut a2 = addrs;
                    perm_same &= essential_hash::solution_set_addr::from_solution_addrs_slice(&mut a2) == base;
                    perm_same &= essential_hash::solution_set_addr::from_set(&SolutionSet { solutions: q }) == base;
                }
                events.push(J::O(vec![("e", js("set")), ("id", js(&id)),
                    ("members", J::A(sols.iter().map(|s| J::O(vec![("contract", jb(&s.predicate_to_solve.contract.0)), ("predicate", jb(&s.predicate_to_solve.predicate.0)),
                                    ("pdata", jww(&s.predicate_data)), ("muts", muts_j(&s.state_mutations))])).collect()))]));
                real.insert(id, json!({"kind": "set", "addr": hex(&base), "perm_same": perm_same,
                                       "abstract": {"members": sols.iter().map(sol_abstract).collect::<Vec<_>>()}}));
            }
        }
    }
    // predicates whose encoding (4 + 34 nodes + 2 edges bytes) ends at, just before and just after
    // the sizes at which a hashing implementation changes regime: SHA-256 padding (55/56/64 bytes),
    // its block size and common buffer sizes (seeded change U-C17: a 1024-byte staging buffer that
    // dropped one byte per refill)
    let mut extra = 0usize;
    for target in [54usize, 56, 58, 62, 64, 66, 118, 120, 126, 128, 130, 254, 256, 258, 510, 512, 514, 1022, 1024, 1026, 1028,
                   2046, 2048, 2050, 2052, 3074, 4094, 4096, 4098, 4100, 8192, 8194] {
        let nn = (target - 4) / 34;
        let ne = (target - 4 - 34 * nn) / 2;
        let p = Predicate {
            nodes: (0..nn).map(|k| Node { edge_start: if k % 3 == 0 { u16::MAX } else { (k % (ne + 1)) as u16 }, program_address: ContentAddress(rng.gen()) }).collect(),
            edges: (0..ne).map(|k| (k % (nn + 1)) as u16).collect(),
        };
        let id = format!("c{}", count + extra);
        extra += 1;
        events.push(J::O(vec![("e", js("pred")), ("id", js(&id)), ("p", J::O(pred_json(&p)))]));
        real.insert(id, json!({"kind": "pred", "addr": hex(&essential_hash::content_addr(&p)), "abstract": pred_abstract(&p)}));
    }
    // programs: address = SHA-256 of the bytes (no structure for the specification to derive)
    let mut prog_ok = true;
    for k in 0..260usize {
        let len = if k < 200 { rng.gen_range(0..64) } else { [55, 56, 63, 64, 65, 119, 120, 1023, 1024, 1025, 2048, 2049, 4096, 4097, 8193][(k - 200) % 15] + (k - 200) / 15 * 64 };
        let bytes: Vec<u8> = (0..len).map(|_| rng.gen()).collect();
        let h: [u8; 32] = sha2::Sha256::digest(&bytes).into();
        prog_ok &= essential_hash::content_addr(&Program(bytes.clone())).0 == h && essential_hash::hash_bytes(&bytes) == h;
    }
    real.insert("programs_ok".into(), json!(prog_ok));
    crate::jv::write_batch(&format!("{}/values.ndjson", args.out), &events).unwrap();
    std::fs::write(format!("{}/real.json", args.out), serde_json::to_string(&real).unwrap()).unwrap();
    let path = format!("{}/addr_summary.json", args.out);
    std::fs::write(&path, json!({"files": [format!("{}/values.ndjson", args.out)], "runs": count + extra, "events": count + extra, "truncated": 0, "samples": [], "counters": {}, "extra": {}}).to_string()).unwrap();
    println!("{path}");
    0
}

/// --in <dir>: reads <dir>/real.json and <dir>/preimages.ndjson (written from TLC's output) and
/// compares; writes <dir>/addr_result.json
fn addr_check(args: &Args) -> i32 {
    let dir = args.input.clone().expect("--in dir");
    let real: serde_json::Value = serde_json::from_str(&std::fs::read_to_string(format!("{dir}/real.json")).unwrap()).unwrap();
    let pre = std::fs::read_to_string(format!("{dir}/preimages.ndjson")).unwrap();
    let sha = |b: &[u8]| -> [u8; 32] { sha2::Sha256::digest(b).into() };
    let bytes_of = |v: &serde_json::Value| -> Vec<u8> { v.as_array().unwrap().iter().map(|x| x.as_u64().unwrap() as u8).collect() };
    let mut checked = 0;
    let mut bad = vec![];
    for line in pre.lines() {
        let v: serde_json::Value = match serde_json::from_str(line) { Ok(v) => v, Err(_) => continue };
        let id = v["id"].as_str().unwrap();
        let r = &real[id];
        let expect = r["addr"].as_str().unwrap();
        let got = match r["kind"].as_str().unwrap() {
            "pred" | "sol" => {
                // for a predicate the spec says "unencodable" when over the limits: zero address
                if v["ok"] == json!(false) { [0u8; 32] } else { sha(&bytes_of(&v["bytes"])) }
            }
            // members' pre-images are hashed, the hashes sorted, concatenated (+ salt), hashed
            _ => {
                let mut hs: Vec<[u8; 32]> = v["members"].as_array().unwrap().iter().map(|m| if m["ok"] == json!(false) { [0u8; 32] } else { sha(&bytes_of(&m["bytes"])) }).collect();
                hs.sort();
                let mut cat: Vec<u8> = hs.iter().flat_map(|h| h.iter().copied()).collect();
                if let Some(s) = v.get("salt") {
                    cat.extend(bytes_of(s));
                }
                sha(&cat)
            }
        };
        checked += 1;
        let perm_ok = r.get("perm_same").map(|p| p == &json!(true)).unwrap_or(true);
        let len_ok = match (r.get("ser_len"), v.get("bytes")) {
            (Some(l), Some(b)) => l.as_u64().unwrap() as usize == b.as_array().unwrap().len(),
            _ => true,
        };
        if hex::encode(got) != expect || !perm_ok || !len_ok {
            bad.push(json!({"id": id, "kind": r["kind"], "real_addr": expect, "addr_from_spec_preimage": hex::encode(got),
                            "permutations_agree": perm_ok, "value": r["abstract"]}));
        }
    }
    if real["programs_ok"] != json!(true) {
        bad.push(json!({"id": "programs", "what": "Program address is not the SHA-256 of its bytes"}));
    }
    std::fs::write(format!("{dir}/addr_result.json"), json!({"checked": checked, "bad": bad}).to_string()).unwrap();
    println!("{dir}/addr_result.json");
    0
}

// ---------------------------------------------------------------------------------------------
// C18: serde / text round trips

fn rt<T: serde::Serialize + serde::de::DeserializeOwned + PartialEq>(v: &T) -> (bool, bool, Vec<u8>, String) {
    let j = serde_json::to_string(v).unwrap_or_default();
    let jr = serde_json::from_str::<T>(&j).map(|x| &x == v).unwrap_or(false);
    let p = postcard::to_allocvec(v).unwrap_or_default();
    let pr = postcard::from_bytes::<T>(&p).map(|x| &x == v).unwrap_or(false);
    (jr, pr, p, j)
}

fn serde_mode(args: &Args, rng: &mut SmallRng) -> i32 {
    let mut b = Batcher::new(&args.out, "codecs_serde", 3000);
    let count = if args.thorough { 15000 } else { 400 };
    for i in 0..count {
        let s = rand_solution(rng);
        let p = rand_pred(rng, if i % 25 == 0 { 60 } else { 5 });
        let prog = Program((0..rng.gen_range(0..40)).map(|_| rng.gen()).collect());
        let set = SolutionSet { solutions: (0..rng.gen_range(0..3)).map(|_| rand_solution(rng)).collect() };
        let contract = Contract { predicates: (0..rng.gen_range(0..3)).map(|_| rand_pred(rng, 3)).collect(), salt: rng.gen() };
        let mut sigb = [0u8; 64];
        rng.fill(&mut sigb[..]);
        let sig = Signature(sigb, rng.gen());
        let signed = SignedContract { contract: contract.clone(), signature: sig.clone() };
        let ca = ContentAddress(rng.gen());
        let pa = PredicateAddress { contract: ca.clone(), predicate: ContentAddress(rng.gen()) };
        let m = Mutation { key: rvec(rng, 3), value: rvec(rng, 3) };
        let mut f = vec![("e", js("serde"))];
        let mut all = true;
        macro_rules! chk {
            ($name:literal, $v:expr) => {{
                let (jr, pr, _, _) = rt(&$v);
                all &= jr && pr;
                f.push(($name, J::B(jr && pr)));
            }};
        }
        chk!("Solution", s);
        chk!("Predicate", p);
        chk!("Program", prog);
        chk!("SolutionSet", set);
        chk!("Contract", contract);
        chk!("SignedContract", signed);
        chk!("Signature", sig);
        chk!("ContentAddress", ca);
        chk!("PredicateAddress", pa);
        chk!("Mutation", m);
        // Display / FromStr, hex forms
        let ca_txt = ca.to_string();
        let txt_ok = ca_txt.parse::<ContentAddress>().map(|x| x == ca).unwrap_or(false)
            && ca_txt.len() == 64
            && ca_txt == ca_txt.to_uppercase()
            && format!("{:x}", ca) == ca_txt.to_lowercase()
            && format!("{:X}", ca) == ca_txt
            && sig.to_string().parse::<Signature>().map(|x| x == sig).unwrap_or(false)
            && sig.to_string().len() == 130
            && format!("{:X}", sig) == sig.to_string()
            && pa.to_string() == format!("{}:{}", pa.contract, pa.predicate);
        f.push(("text", J::B(txt_ok)));
        // human readable forms are hex strings; binary forms are byte sequences
        let jca = serde_json::to_value(&ca).unwrap();
        let hr_ok = jca == json!(ca_txt)
            && serde_json::to_value(&sig).unwrap() == json!(sig.to_string())
            && serde_json::to_value(&prog).unwrap() == json!(hex::encode(&prog.0))
            && postcard::to_allocvec(&ca).unwrap() == [&[32u8][..], &ca.0[..]].concat()
            && postcard::to_allocvec(&sig).unwrap() == [&[65u8][..], &sig.0[..], &[sig.1][..]].concat();
        f.push(("forms", J::B(hr_ok)));
        // legacy field names
        let legacy = json!({"data": [{"predicate_to_solve": serde_json::to_value(&pa).unwrap(), "decision_variables": s.predicate_data, "state_mutations": []}]});
        let leg_ok = serde_json::from_value::<SolutionSet>(legacy).map(|x| x.solutions.len() == 1 && x.solutions[0].predicate_data == s.predicate_data && x.solutions[0].predicate_to_solve == pa).unwrap_or(false);
        f.push(("legacy", J::B(leg_ok)));
        // the postcard wire form of a solution is what the specification derives
        f.push(("s", J::O(vec![("contract", jb(&s.predicate_to_solve.contract.0)), ("predicate", jb(&s.predicate_to_solve.predicate.0)),
                               ("pdata", jww(&s.predicate_data)), ("muts", muts_j(&s.state_mutations))])));
        f.push(("pc", jb(&postcard::to_allocvec(&s).unwrap())));
        let _ = all;
        b.push_run(&format!("serde/{i}"), vec![J::O(f)], json!({"i": i}));
    }
    b.finish(json!({"driver": "codecs", "mode": "serde"}))
}
