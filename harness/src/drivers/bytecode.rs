//! C13 / C14 / C15: the bytecode codec, the op-index mapping and the effect scan of the real
//! crates, one self-contained event per case, validated by spec/trace/TraceBytecode.tla against
//! Bytecode.tla instantiated with the table generated from asm.yml.

use super::Batcher;
use crate::jv::{ji, js, J};
use crate::ops;
use crate::Args;
use essential_asm::{self as asm, effects::Effects, FromBytesError, Op, Opcode, ToBytes};
use essential_vm::BytecodeMapped;
use rand::rngs::SmallRng;
use rand::{Rng, SeedableRng};
use serde_json::json;

fn jb(bs: &[u8]) -> J {
    J::A(bs.iter().map(|b| J::I(*b as i64)).collect())
}

fn op_j(op: &Op) -> J {
    match op {
        Op::Stack(asm::Stack::Push(w)) => J::O(vec![("n", js("PUSH")), ("imm", jb(&w.to_be_bytes()))]),
        _ => J::O(vec![("n", js(ops::name(op)))]),
    }
}
fn ops_j(v: &[Op]) -> J {
    J::A(v.iter().map(op_j).collect())
}

fn err_j(e: &FromBytesError) -> Vec<(&'static str, J)> {
    match e {
        FromBytesError::InvalidOpcode(b) => vec![("ok", J::B(false)), ("err", js("InvalidOpcode")), ("byte", J::I(b.0 as i64))],
        FromBytesError::NotEnoughBytes(_) => vec![("ok", J::B(false)), ("err", js("NotEnoughBytes"))],
    }
}

/// Everything the crates say about one byte string.
fn bytes_event(bytes: &[u8]) -> J {
    let mut ops_seen = vec![];
    let mut perr = None;
    for r in asm::from_bytes(bytes.iter().copied()) {
        match r {
            Ok(op) => ops_seen.push(op),
            Err(e) => {
                perr = Some(e);
                break;
            }
        }
    }
    let mut parse = match &perr {
        None => vec![("ok", J::B(true))],
        Some(e) => err_j(e),
    };
    parse.push(("ops", ops_j(&ops_seen)));
    let reser: Vec<u8> = asm::to_bytes(ops_seen.iter().copied()).collect();
    let mut f = vec![("e", js("bytes")), ("b", jb(bytes)), ("parse", J::O(parse)), ("reser", jb(&reser))];
    // owned and borrowed containers
    let owned = BytecodeMapped::try_from(bytes.to_vec());
    let borrowed = BytecodeMapped::try_from(bytes);
    let same = match (&owned, &borrowed) {
        (Ok(a), Ok(b)) => a.op_indices() == b.op_indices() && a.bytecode() == b.bytecode(),
        (Err(a), Err(b)) => format!("{a:?}") == format!("{b:?}"),
        _ => false,
    };
    f.push(("owned_eq_borrowed", J::B(same)));
    match &borrowed {
        Ok(m) => {
            let idx: Vec<J> = m.op_indices().iter().map(|i| ji(*i)).collect();
            let mops: Vec<Op> = m.ops().collect();
            let n = m.op_indices().len();
            let opat: Vec<Op> = (0..n).filter_map(|i| m.op(i)).collect();
            let from1: Vec<Op> = m.ops_from(1.min(n)).map(|s| s.ops().collect()).unwrap_or_default();
            f.push(("map", J::O(vec![("ok", J::B(true)), ("idx", J::A(idx))])));
            f.push(("mops", ops_j(&mops)));
            f.push(("opat", ops_j(&opat)));
            f.push(("opat_n", ji(opat.len())));
            f.push(("opat_end_none", J::B(m.op(n).is_none() && m.op(n + 7).is_none())));
            f.push(("from1", ops_j(&from1)));
        }
        Err(e) => {
            f.push(("map", J::O(err_j(e))));
        }
    }
    J::O(f)
}

/// Everything the crates say about one op sequence.
fn ops_event(v: &[Op]) -> J {
    let ser: Vec<u8> = asm::to_bytes(v.iter().copied()).collect();
    let per_op: Vec<J> = v.iter().map(|o| jb(&o.to_bytes().into_iter().collect::<Vec<u8>>())).collect();
    let m: BytecodeMapped = v.iter().copied().collect();
    let back: Result<Vec<Op>, _> = asm::from_bytes(ser.iter().copied()).collect();
    let opcodes: Vec<J> = v
        .iter()
        .map(|o| {
            use essential_asm::ToOpcode;
            let oc: Opcode = o.to_opcode();
            J::I(u8::from(oc) as i64)
        })
        .collect();
    J::O(vec![
        ("e", js("ops")),
        ("ops", ops_j(v)),
        ("ser", jb(&ser)),
        ("per_op", J::A(per_op)),
        ("fi_bytes", jb(m.bytecode())),
        ("fi_idx", J::A(m.op_indices().iter().map(|i| ji(*i)).collect())),
        ("back_ok", J::B(back.as_ref().map(|b| b == v).unwrap_or(false))),
        ("opcodes", J::A(opcodes)),
    ])
}

const EFFECT_NAMES: [&str; 6] = ["KeyRange", "KeyRangeExtern", "ThisAddress", "ThisContractAddress", "PostKeyRange", "PostKeyRangeExtern"];

fn eff_names(e: Effects) -> J {
    J::A((0..6).filter(|i| e.bits() & (1 << i) != 0).map(|i| js(EFFECT_NAMES[i])).collect())
}

fn scan_event(bytes: &[u8], v: Option<&[Op]>) -> J {
    let anys: Vec<J> = (0u8..64).map(|m| J::B(asm::effects::bytes_contains_any(bytes, Effects::from_bits_truncate(m)))).collect();
    let mut f = vec![("e", js("scan")), ("b", jb(bytes)), ("anys", J::A(anys))];
    if let Some(v) = v {
        f.push(("ops", ops_j(v)));
        f.push(("eff", eff_names(asm::effects::analyze(v))));
    }
    J::O(f)
}

pub fn main(args: &Args) -> i32 {
    let mode = args.extra.get("mode").cloned().unwrap_or_else(|| "codec".into());
    let mut b = Batcher::new(&args.out, &format!("bytecode_{mode}"), 40_000);
    let mut rng = SmallRng::seed_from_u64(args.seed ^ 0xB17E ^ (args.shard.0 << 20));
    let mut n = 0u64;
    let mut mine = |n: &mut u64| {
        *n += 1;
        *n % args.shard.1 == args.shard.0
    };
    let all = ops::all_plain();
    let effect_bytes: Vec<u8> = [0x80u8, 0x81, 0x82, 0x83, 0x30, 0x31].to_vec();
    let mut push1 = |b: &mut Batcher, label: String, ev: J, raw: serde_json::Value| {
        b.push_run(&label, vec![ev], raw);
    };
    // a panic in the code under test is data: it becomes an event no specification action accepts
    fn guarded(f: impl FnOnce() -> J) -> J {
        match std::panic::catch_unwind(std::panic::AssertUnwindSafe(f)) {
            Ok(j) => j,
            Err(p) => {
                let msg = p.downcast_ref::<String>().cloned().or_else(|| p.downcast_ref::<&str>().map(|s| s.to_string())).unwrap_or_else(|| "panic".into());
                J::O(vec![("e", js("panic")), ("msg", js(&msg))])
            }
        }
    }
    if mode == "codec" {
        // all 256 opcode bytes
        for byte in 0..=255u8 {
            if !mine(&mut n) {
                continue;
            }
            let oc = Opcode::try_from(byte);
            let mut f = vec![("e", js("opcode")), ("byte", J::I(byte as i64)), ("valid", J::B(oc.is_ok()))];
            if let Ok(oc) = oc {
                f.push(("back", J::I(u8::from(oc) as i64)));
                f.push(("dbg", js(&format!("{:?}", oc))));
            }
            push1(&mut b, format!("opcode/{byte}"), J::O(f), json!({"byte": byte}));
        }
        // all byte pairs (and single bytes)
        for a in 0..=255u8 {
            if mine(&mut n) {
                push1(&mut b, format!("b1/{a}"), guarded(|| bytes_event(&[a])), json!({"bytes": [a]}));
            }
            for c in 0..=255u8 {
                if !mine(&mut n) {
                    continue;
                }
                if !args.thorough && (a as u32 * 256 + c as u32) % 4 != 0 && !(all.iter().any(|o| o.to_bytes().into_iter().next() == Some(a))) {
                    continue;
                }
                push1(&mut b, format!("b2/{a}/{c}"), guarded(|| bytes_event(&[a, c])), json!({"bytes": [a, c]}));
            }
        }
        // all op pairs
        let mut alpha = all.clone();
        alpha.push(ops::push(0x0102030405060708));
        for x in &alpha {
            for y in &alpha {
                if !mine(&mut n) {
                    continue;
                }
                let v = [*x, *y];
                push1(&mut b, format!("op2/{}/{}", ops::name(x), ops::name(y)), guarded(|| ops_event(&v)), json!({"ops": [ops::name(x), ops::name(y)]}));
            }
        }
        // immediates: walking one / zero, boundaries, every opcode byte at every position
        let mut imms: Vec<i64> = vec![0, 1, -1, i64::MIN, i64::MAX, i64::MIN + 1, i64::MAX - 1, 255, 256, -256];
        for k in 0..64 {
            imms.push(1i64 << k);
            imms.push(!(1i64 << k));
        }
        for pos in 0..8 {
            for o in &all {
                let mut by = [0u8; 8];
                by[pos] = o.to_bytes().into_iter().next().unwrap();
                imms.push(i64::from_be_bytes(by));
            }
            for bad in [0x00u8, 0xFF, 0x0F] {
                let mut by = [0x01u8; 8];
                by[pos] = bad;
                imms.push(i64::from_be_bytes(by));
            }
        }
        for (i, w) in imms.iter().enumerate() {
            if !mine(&mut n) {
                continue;
            }
            let v = [ops::push(*w), all[i % all.len()]];
            push1(&mut b, format!("imm/{i}"), guarded(|| ops_event(&v)), json!({"push": w}));
            let bytes: Vec<u8> = asm::to_bytes(v.iter().copied()).collect();
            push1(&mut b, format!("immb/{i}"), guarded(|| bytes_event(&bytes)), json!({"bytes": bytes}));
            // every truncation point
            for cut in 0..bytes.len() {
                push1(&mut b, format!("immt/{i}/{cut}"), guarded(|| bytes_event(&bytes[..cut])), json!({"bytes": &bytes[..cut]}));
            }
        }
        // random op sequences and random / mutated byte strings
        let count = if args.thorough { 4000 } else { 500 } / args.shard.1.max(1);
        for i in 0..count {
            let len = rng.gen_range(0..if i % 10 == 0 { 500 } else { 40 });
            let v: Vec<Op> = (0..len)
                .map(|_| if rng.gen_range(0..4) == 0 { ops::push(rng.gen()) } else { all[rng.gen_range(0..all.len())] })
                .collect();
            push1(&mut b, format!("rops/{}/{i}", args.shard.0), guarded(|| ops_event(&v)), json!({"ops": v.iter().map(ops::name).collect::<Vec<_>>()}));
            let mut bytes: Vec<u8> = asm::to_bytes(v.iter().copied()).collect();
            match rng.gen_range(0..4) {
                0 if !bytes.is_empty() => {
                    let k = rng.gen_range(0..bytes.len());
                    bytes[k] = rng.gen();
                }
                1 if !bytes.is_empty() => {
                    let k = rng.gen_range(0..bytes.len());
                    bytes.truncate(k);
                }
                2 => {
                    let k = rng.gen_range(0..bytes.len() + 1);
                    bytes.insert(k, rng.gen());
                }
                _ => {}
            }
            push1(&mut b, format!("rbytes/{}/{i}", args.shard.0), guarded(|| bytes_event(&bytes)), json!({"bytes": bytes}));
            let rb: Vec<u8> = (0..rng.gen_range(0..24)).map(|_| rng.gen()).collect();
            push1(&mut b, format!("rand/{}/{i}", args.shard.0), guarded(|| bytes_event(&rb)), json!({"bytes": rb}));
        }
    } else {
        // effects: programs of <= 2 ops over all ops and pushes whose immediates carry an effectful
        // opcode byte at each position
        let mut alpha = all.clone();
        for pos in 0..8 {
            for eb in &effect_bytes {
                let mut by = [0u8; 8];
                by[pos] = *eb;
                alpha.push(ops::push(i64::from_be_bytes(by)));
            }
        }
        alpha.push(ops::push(i64::from_be_bytes([0x01; 8])));
        alpha.push(ops::push(i64::from_be_bytes([0x80, 0x81, 0x82, 0x83, 0x30, 0x31, 0x01, 0x80])));
        for x in &alpha {
            if mine(&mut n) {
                let v = [*x];
                let bytes: Vec<u8> = asm::to_bytes(v.iter().copied()).collect();
                push1(&mut b, format!("e1/{}", ops::name(x)), guarded(|| scan_event(&bytes, Some(&v))), json!({"ops": [ops::name(x)]}));
            }
            for y in &alpha {
                if !mine(&mut n) {
                    continue;
                }
                let v = [*x, *y];
                let bytes: Vec<u8> = asm::to_bytes(v.iter().copied()).collect();
                push1(&mut b, format!("e2/{}/{}", ops::name(x), ops::name(y)), guarded(|| scan_event(&bytes, Some(&v))), json!({"bytes": bytes}));
            }
        }
        let count = if args.thorough { 20000 } else { 2000 } / args.shard.1.max(1);
        for i in 0..count {
            let len = rng.gen_range(0..12);
            let v: Vec<Op> = (0..len).map(|_| alpha[rng.gen_range(0..alpha.len())]).collect();
            let bytes: Vec<u8> = asm::to_bytes(v.iter().copied()).collect();
            push1(&mut b, format!("er/{}/{i}", args.shard.0), guarded(|| scan_event(&bytes, Some(&v))), json!({"bytes": bytes}));
        }
    }
    b.finish(json!({"driver": "bytecode", "mode": mode}))
}
