//! Drivers: each one runs the real code on generated inputs and writes trace batches.

pub mod bytecode;
pub mod codecs;
pub mod replay;
pub mod sign;
pub mod crypto;
pub mod lock;
pub mod validators;
pub mod checker;
pub mod vmops;
pub mod vmprog;

use crate::jv::{self, J};
use crate::Args;
use std::io::Write;

pub fn dispatch(driver: &str, args: &Args) -> i32 {
    match driver {
        "vmops" => vmops::main(args),
        "stateread" => vmops::main_stateread(args),
        "bytecode" => bytecode::main(args),
        "codecs" => codecs::main(args),
        "replay" => replay::main(args),
        "sign" => sign::main(args),
        "crypto" => crypto::main(args),
        "lock" => lock::main(args),
        "validators" => validators::main(args),
        "checker" => checker::main(args),
        "vmprog" => vmprog::main(args),
        _ => {
            eprintln!("unknown driver {driver}");
            2
        }
    }
}

/// A panic in the code under test is data: the case becomes a `panic` event, which no
/// specification action accepts.
pub fn guarded(f: impl FnOnce() -> J) -> J {
    match std::panic::catch_unwind(std::panic::AssertUnwindSafe(f)) {
        Ok(j) => j,
        Err(p) => {
            let msg = p.downcast_ref::<String>().cloned().or_else(|| p.downcast_ref::<&str>().map(|s| s.to_string())).unwrap_or_else(|| "panic".into());
            J::O(vec![("e", jv::js("panic")), ("msg", jv::js(&msg))])
        }
    }
}

/// Collects the events of many runs into NDJSON batch files of bounded size, plus a sidecar
/// with the raw (uncompressed) description of every run for replay files.
pub struct Batcher {
    dir: String,
    prefix: String,
    max_events: usize,
    cur: Vec<J>,
    weight: usize,
    raw: Vec<String>,
    pub files: Vec<String>,
    pub runs: usize,
    pub events: usize,
    pub truncated: usize,
    pub samples: Vec<serde_json::Value>,
    pub counters: std::collections::BTreeMap<String, u64>,
}

impl Batcher {
    pub fn new(dir: &str, prefix: &str, max_events: usize) -> Self {
        Batcher {
            dir: dir.to_string(),
            prefix: prefix.to_string(),
            max_events,
            cur: vec![],
            weight: 0,
            raw: vec![],
            files: vec![],
            runs: 0,
            events: 0,
            truncated: 0,
            samples: vec![],
            counters: Default::default(),
        }
    }
    pub fn count(&mut self, key: &str, n: u64) {
        *self.counters.entry(key.to_string()).or_default() += n;
    }
    pub fn push_run(&mut self, label: &str, events: Vec<J>, raw: serde_json::Value) {
        self.runs += 1;
        self.events += events.len();
        if self.samples.len() < 3 || (self.runs % 997 == 0 && self.samples.len() < 8) {
            self.samples.push(serde_json::json!({"label": label, "case": raw.clone()}));
        }
        self.raw.push(serde_json::json!({"label": label, "case": raw}).to_string());
        fn weight(j: &J) -> usize {
            match j {
                J::A(xs) => 1 + xs.iter().map(weight).sum::<usize>(),
                J::O(kv) => 1 + kv.iter().map(|(_, v)| weight(v)).sum::<usize>(),
                _ => 1,
            }
        }
        self.weight += events.iter().map(weight).sum::<usize>();
        self.cur.extend(events);
        if self.cur.len() >= self.max_events || self.weight > 6_000_000 {
            self.flush();
        }
    }
    pub fn flush(&mut self) {
        if self.cur.is_empty() {
            return;
        }
        let path = format!("{}/{}_{:04}.ndjson", self.dir, self.prefix, self.files.len());
        jv::write_batch(&path, &self.cur).expect("write batch");
        let mut f = std::io::BufWriter::new(std::fs::File::create(format!("{path}.raw")).expect("raw"));
        for l in &self.raw {
            writeln!(f, "{l}").unwrap();
        }
        self.files.push(path);
        self.cur.clear();
        self.raw.clear();
        self.weight = 0;
    }
    pub fn finish(mut self, extra: serde_json::Value) -> i32 {
        self.flush();
        let summary = serde_json::json!({
            "files": self.files,
            "runs": self.runs,
            "events": self.events,
            "truncated": self.truncated,
            "samples": self.samples,
            "counters": self.counters,
            "extra": extra,
        });
        let path = format!("{}/{}_summary.json", self.dir, self.prefix);
        std::fs::write(&path, serde_json::to_string_pretty(&summary).unwrap()).expect("summary");
        println!("{}", path);
        0
    }
}
