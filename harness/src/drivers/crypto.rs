//! C12 (crypto + PredicateExists): oracle evaluation.
//!   --mode gen    runs Sha256 / VerifyEd25519 / RecoverSecp256k1 / PredicateExists on the real VM
//!                 and writes the operand words (as bytes) for TLC plus what the VM answered
//!   --mode check  feeds the bytes TLC derived from Crypto.tla to the hash / sign crates and
//!                 compares with what the VM answered

use crate::jv::{ji, js, J};
use crate::obs::Snap;
use crate::ops;
use crate::run::{run_traced, Outcome, RunCfg};
use crate::Args;
use essential_types::{solution::Solution, ContentAddress, PredicateAddress};
use rand::rngs::SmallRng;
use rand::{Rng, SeedableRng};
use serde_json::json;

fn jb(bs: &[u8]) -> J {
    J::A(bs.iter().map(|b| J::I(*b as i64)).collect())
}
fn wb(w: i64) -> J {
    jb(&w.to_be_bytes())
}
fn words_j(ws: &[i64]) -> J {
    J::A(ws.iter().map(|w| wb(*w)).collect())
}
fn bytes_to_words(b: &[u8]) -> Vec<i64> {
    b.chunks(8)
        .map(|c| {
            let mut a = [0u8; 8];
            a[..c.len()].copy_from_slice(c);
            i64::from_be_bytes(a)
        })
        .collect()
}

fn exec(op: &str, st: Vec<i64>, sols: Option<(Vec<Solution>, usize)>) -> (bool, Vec<i64>) {
    let mut cfg = RunCfg::simple(vec![ops::by_name(op).unwrap()]);
    cfg.vm0 = Snap { st, ..Default::default() };
    if let Some((s, i)) = sols {
        cfg.sols = s;
        cfg.idx = i;
    }
    let out = run_traced(&cfg);
    (matches!(out.outcome, Outcome::Ok(_)), out.fin.st)
}

pub fn main(args: &Args) -> i32 {
    let mode = args.extra.get("mode").cloned().unwrap_or_else(|| "gen".into());
    if mode == "check" {
        return check(args);
    }
    let mut rng = SmallRng::seed_from_u64(args.seed ^ 0xC12);
    let mut events = vec![];
    let mut real = serde_json::Map::new();
    let mut id = 0usize;
    let mut add = |events: &mut Vec<J>, real: &mut serde_json::Map<String, serde_json::Value>, ev: Vec<(&'static str, J)>, r: serde_json::Value| {
        let name = format!("k{id}");
        id += 1;
        let mut f = vec![("id", js(&name))];
        f.extend(ev);
        events.push(J::O(f));
        real.insert(name, r);
    };
    let base_of = |rng: &mut SmallRng| -> Vec<i64> { (0..rng.gen_range(0..3)).map(|_| rng.gen()).collect() };
    // SHA2: every byte length 0..40 (random contents), plus junk in the bytes beyond the length
    for n in 0..=40usize {
        for _ in 0..(if args.thorough { 6 } else { 2 }) {
            let data: Vec<u8> = (0..n.div_ceil(8) * 8).map(|_| rng.gen()).collect();
            let base = base_of(&mut rng);
            let mut st = base.clone();
            st.extend(bytes_to_words(&data));
            let below = st.clone();
            st.push(n as i64);
            let (ok, fin) = exec("SHA2", st, None);
            add(&mut events, &mut real, vec![("op", js("SHA2")), ("below", words_j(&below)), ("n", ji(n))],
                json!({"op": "SHA2", "ok": ok, "fin": fin, "base": base}));
        }
    }
    // VRFYED
    {
        use ed25519_dalek::{Signer, SigningKey};
        let count = if args.thorough { 2000 } else { 80 };
        for i in 0..count {
            let mut seed = [0u8; 32];
            rng.fill(&mut seed);
            let sk = SigningKey::from_bytes(&seed);
            let n = rng.gen_range(0..40usize);
            let mut data: Vec<u8> = (0..n.div_ceil(8) * 8).map(|_| rng.gen()).collect();
            let sig = sk.sign(&data[..n]).to_bytes();
            let mut key = sk.verifying_key().to_bytes();
            let mut sigv = sig.to_vec();
            match i % 5 {
                1 if n > 0 => { let k = rng.gen_range(0..n); data[k] ^= 1 }
                2 => sigv[rng.gen_range(0..64)] ^= 0x40,
                3 => key[rng.gen_range(0..32)] ^= 0x08,
                // bytes beyond the length do not matter
                4 if n % 8 != 0 => { let l = data.len() - 1; data[l] ^= 0xFF }
                _ => {}
            }
            let base = base_of(&mut rng);
            let mut st = base.clone();
            st.extend(bytes_to_words(&data));
            st.push(n as i64);
            st.extend(bytes_to_words(&sigv));
            st.extend(bytes_to_words(&key));
            let (ok, fin) = exec("VRFYED", st.clone(), None);
            // the spec sees the stack without the length word in its position: give it the stack and n
            add(&mut events, &mut real, vec![("op", js("VRFYED")), ("st", words_j(&st)), ("n", ji(n))],
                json!({"op": "VRFYED", "ok": ok, "fin": fin, "base": base}));
        }
    }
    // RSECP
    {
        use secp256k1::{Message, Secp256k1, SecretKey};
        let secp = Secp256k1::new();
        let count = if args.thorough { 2000 } else { 80 };
        for i in 0..count {
            let mut skb = [0u8; 32];
            rng.fill(&mut skb);
            skb[0] = 1;
            let sk = SecretKey::from_slice(&skb).unwrap();
            let mut hash = [0u8; 32];
            rng.fill(&mut hash);
            let (rid, sig) = secp.sign_ecdsa_recoverable(&Message::from_digest(hash), &sk).serialize_compact();
            let mut sigv = sig.to_vec();
            let mut rid: i64 = i32::from(rid) as i64;
            match i % 8 {
                1 => hash[3] ^= 1,
                2 => sigv[10] ^= 2,
                3 => rid = [-1i64, 4, 1 << 31, 1 << 40, i64::MAX, i64::MIN][rng.gen_range(0..6)],
                4 => sigv = vec![0; 64],
                5 => sigv = vec![0xFF; 64],
                6 => rid = (rid + 1) % 4,
                _ => {}
            }
            let base = base_of(&mut rng);
            let mut st = base.clone();
            st.extend(bytes_to_words(&hash));
            st.extend(bytes_to_words(&sigv));
            st.push(rid);
            let (ok, fin) = exec("RSECP", st.clone(), None);
            add(&mut events, &mut real, vec![("op", js("RSECP")), ("st", words_j(&st))],
                json!({"op": "RSECP", "ok": ok, "fin": fin, "base": base, "rid": rid}));
        }
    }
    // PEX: solution sets; the hash on the stack is filled in by the check phase, so the VM is run
    // there; here only the abstract solutions go to TLC
    {
        let count = if args.thorough { 1500 } else { 60 };
        for _ in 0..count {
            let k = rng.gen_range(1..4usize);
            let mut sols: Vec<Solution> = (0..k)
                .map(|_| Solution {
                    predicate_to_solve: PredicateAddress { contract: ContentAddress(rng.gen()), predicate: ContentAddress(rng.gen()) },
                    predicate_data: (0..rng.gen_range(0..3)).map(|_| (0..rng.gen_range(0..3)).map(|_| if rng.gen_bool(0.5) { rng.gen_range(0..3) } else { rng.gen() }).collect()).collect(),
                    state_mutations: vec![],
                })
                .collect();
            // several solutions of one set may solve the same predicate (with different or with the
            // same data): every one of them "exists"
            if k >= 2 && rng.gen_bool(0.5) {
                let shared = sols[0].predicate_to_solve.clone();
                for s in sols.iter_mut().skip(1) {
                    if rng.gen_bool(0.7) {
                        s.predicate_to_solve = shared.clone();
                    }
                }
                if k >= 3 && rng.gen_bool(0.3) {
                    sols[2] = sols[0].clone();
                }
            }
            let sols_j = J::A(sols.iter().map(|s| J::O(vec![
                ("slots", J::A(s.predicate_data.iter().map(|sl| J::O(vec![("len", wb(sl.len() as i64)), ("words", words_j(sl))])).collect())),
                ("contract", jb(&s.predicate_to_solve.contract.0)),
                ("predicate", jb(&s.predicate_to_solve.predicate.0)),
            ])).collect());
            let raw: Vec<serde_json::Value> = sols.iter().map(|s| json!({"c": s.predicate_to_solve.contract.0.to_vec(), "p": s.predicate_to_solve.predicate.0.to_vec(), "d": s.predicate_data})).collect();
            add(&mut events, &mut real, vec![("op", js("PEX")), ("sols", sols_j)], json!({"op": "PEX", "sols": raw}));
        }
    }
    // atoms never occur here: every word is given as bytes
    crate::jv::write_batch(&format!("{}/cases.ndjson", args.out), &events).unwrap();
    std::fs::write(format!("{}/real.json", args.out), serde_json::to_string(&real).unwrap()).unwrap();
    let path = format!("{}/crypto_summary.json", args.out);
    std::fs::write(&path, json!({"files": [], "runs": events.len(), "events": events.len(), "truncated": 0, "samples": [], "counters": {}, "extra": {}}).to_string()).unwrap();
    println!("{path}");
    0
}

fn check(args: &Args) -> i32 {
    use sha2::Digest;
    let dir = args.input.clone().expect("--in dir");
    let real: serde_json::Value = serde_json::from_str(&std::fs::read_to_string(format!("{dir}/real.json")).unwrap()).unwrap();
    let pre = std::fs::read_to_string(format!("{dir}/derived.ndjson")).unwrap();
    let bytes_of = |v: &serde_json::Value| -> Vec<u8> { v.as_array().unwrap().iter().map(|x| x.as_u64().unwrap() as u8).collect() };
    let words_of = |v: &serde_json::Value| -> Vec<i64> { v.as_array().unwrap().iter().map(|x| x.as_i64().unwrap()).collect() };
    let mut bad = vec![];
    let mut checked = 0;
    for line in pre.lines() {
        let Ok(v) = serde_json::from_str::<serde_json::Value>(line) else { continue };
        let id = v["id"].as_str().unwrap();
        let r = &real[id];
        checked += 1;
        let mut expect: Option<Vec<i64>> = None; // expected final stack, None = the op must fail
        let base: Vec<i64> = r.get("base").map(words_of).unwrap_or_default();
        match r["op"].as_str().unwrap() {
            "SHA2" => {
                let h = essential_hash::hash_bytes(&bytes_of(&v["msg"]));
                let mut e = base.clone();
                e.extend(bytes_to_words(&h));
                expect = Some(e);
            }
            "VRFYED" => {
                use ed25519_dalek::{Signature, Verifier, VerifyingKey};
                let key: [u8; 32] = bytes_of(&v["key"]).try_into().unwrap();
                let sig: [u8; 64] = bytes_of(&v["sig"]).try_into().unwrap();
                if let Ok(k) = VerifyingKey::from_bytes(&key) {
                    let valid = k.verify(&bytes_of(&v["msg"]), &Signature::from_bytes(&sig)).is_ok();
                    let mut e = base.clone();
                    e.push(valid as i64);
                    expect = Some(e);
                }
            }
            "RSECP" => {
                let rid = r["rid"].as_i64().unwrap();
                let hash: [u8; 32] = bytes_of(&v["hash"]).try_into().unwrap();
                let sig: [u8; 64] = bytes_of(&v["sig"]).try_into().unwrap();
                if (0..=3).contains(&rid) {
                    // the three-way result of the sign crate on the same bytes
                    let s = essential_types::Signature(sig, rid as u8);
                    match essential_sign::recover_hash(hash, &s) {
                        Ok(pk) => {
                            let mut e = base.clone();
                            e.extend(essential_sign::encode::public_key(&pk));
                            expect = Some(e);
                        }
                        Err(_) => {
                            // well-formed but unrecoverable => five zero words; malformed => error
                            use secp256k1::ecdsa::{RecoverableSignature, RecoveryId};
                            let wellformed = RecoveryId::try_from(rid as i32).ok().and_then(|ri| RecoverableSignature::from_compact(&sig, ri).ok()).is_some();
                            if wellformed {
                                let mut e = base.clone();
                                e.extend([0; 5]);
                                expect = Some(e);
                            }
                        }
                    }
                }
            }
            "PEX" => {
                // run the real op now: for every solution's pre-image hash (hit) and for a miss
                let sols: Vec<Solution> = r["sols"].as_array().unwrap().iter().map(|s| Solution {
                    predicate_to_solve: PredicateAddress { contract: ContentAddress(bytes_of(&s["c"]).try_into().unwrap()), predicate: ContentAddress(bytes_of(&s["p"]).try_into().unwrap()) },
                    predicate_data: s["d"].as_array().unwrap().iter().map(words_of).collect(),
                    state_mutations: vec![],
                }).collect();
                let pres: Vec<Vec<u8>> = v["pre"].as_array().unwrap().iter().map(bytes_of).collect();
                let mut ok_all = true;
                let mut detail = vec![];
                for (i, p) in pres.iter().enumerate() {
                    let h: [u8; 32] = sha2::Sha256::digest(p).into();
                    for (variant, hw) in [("hit", bytes_to_words(&h)), ("miss", { let mut w = bytes_to_words(&h); w[2] ^= 1; w })] {
                        let mut st = vec![77];
                        st.extend(&hw);
                        let (ok, fin) = exec("PEX", st, Some((sols.clone(), i % sols.len())));
                        let want = vec![77, (variant == "hit") as i64];
                        if !ok || fin != want {
                            ok_all = false;
                            detail.push(json!({"solution": i, "variant": variant, "vm_ok": ok, "vm_stack": fin}));
                        }
                    }
                }
                if !ok_all {
                    bad.push(json!({"id": id, "op": "PEX", "detail": detail, "sols": r["sols"]}));
                }
                continue;
            }
            _ => {}
        }
        let vm_ok = r["ok"].as_bool().unwrap();
        let vm_fin = words_of(&r["fin"]);
        let agree = match &expect {
            Some(e) => vm_ok && &vm_fin == e,
            None => !vm_ok,
        };
        if !agree {
            bad.push(json!({"id": id, "op": r["op"], "vm_ok": vm_ok, "vm_stack": vm_fin, "expected_from_spec_bytes": expect, "derived": v}));
        }
    }
    std::fs::write(format!("{dir}/crypto_result.json"), json!({"checked": checked, "bad": bad}).to_string()).unwrap();
    println!("{dir}/crypto_result.json");
    0
}
