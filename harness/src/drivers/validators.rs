//! C16: the validators of crates/check at, just below and just above every documented limit,
//! pairwise with every other limit; inputs are logged as size descriptors (all the validators
//! inspect) and the verdicts are validated by spec/trace/TraceValidators.tla (Validators.tla with
//! the real constants).

use super::Batcher;
use crate::jv::{ji, js, J};
use crate::Args;
use essential_check::{predicate, solution};
use essential_types::{
    contract::{Contract, SignedContract},
    predicate::{Node, Predicate},
    solution::{Mutation, Solution, SolutionSet},
    ContentAddress, PredicateAddress, Signature,
};
use rand::rngs::SmallRng;
use rand::{Rng, SeedableRng};
use serde_json::json;

#[derive(Clone, Debug)]
struct MutD {
    c: usize,
    kid: usize,
    kl: usize,
    vl: usize,
}
#[derive(Clone, Debug, Default)]
struct SolDesc {
    pd: Vec<usize>,
    ms: Vec<MutD>,
}

fn addr(i: usize) -> ContentAddress {
    let mut a = [0u8; 32];
    a[..8].copy_from_slice(&(i as u64).to_be_bytes());
    ContentAddress(a)
}

/// How the words of slots, keys and values are chosen: the validators may only look at sizes (and
/// at key equality), so every verdict must be the same under every fill.
#[derive(Clone, Copy, Debug, PartialEq)]
pub enum Fill {
    /// all slots zero, keys `[kid; kl]`, values all one
    Uniform,
    /// slot j filled with j+1; keys `[kid, 1, 2, ..]`; value of mutation j filled with j+1
    Ascending,
    /// slot j filled with -(j+1); keys `[kid, -1, -2, ..]`; value of mutation j filled with -(j+1)
    Descending,
    /// pseudo-random words derived from the position
    Mixed,
}

impl Fill {
    fn name(self) -> &'static str {
        match self {
            Fill::Uniform => "uniform",
            Fill::Ascending => "asc",
            Fill::Descending => "desc",
            Fill::Mixed => "mixed",
        }
    }
    fn mix(a: usize, b: usize) -> i64 {
        let x = (a as u64).wrapping_mul(0x9E37_79B9_7F4A_7C15).wrapping_add((b as u64).wrapping_mul(0xD1B5_4A32_D192_ED03));
        (x ^ (x >> 29)) as i64
    }
    fn slot(self, j: usize, len: usize) -> Vec<i64> {
        match self {
            Fill::Uniform => vec![0; len],
            Fill::Ascending => vec![j as i64 + 1; len],
            Fill::Descending => vec![-(j as i64) - 1; len],
            Fill::Mixed => (0..len).map(|t| Self::mix(j + 1, t)).collect(),
        }
    }
    /// keys are identified by (kid, kl) under every fill
    fn key(self, kid: usize, kl: usize) -> Vec<i64> {
        match self {
            Fill::Uniform => vec![kid as i64; kl],
            Fill::Ascending => (0..kl).map(|t| if t == 0 { kid as i64 } else { t as i64 }).collect(),
            Fill::Descending => (0..kl).map(|t| if t == 0 { kid as i64 } else { -(t as i64) }).collect(),
            Fill::Mixed => (0..kl).map(|t| if t == 0 { kid as i64 } else { Self::mix(kid, t) }).collect(),
        }
    }
    fn value(self, j: usize, len: usize) -> Vec<i64> {
        match self {
            Fill::Uniform => vec![1; len],
            _ => self.slot(j, len),
        }
    }
}

fn build_set(d: &[SolDesc], fill: Fill) -> SolutionSet {
    SolutionSet {
        solutions: d
            .iter()
            .enumerate()
            .map(|(i, s)| Solution {
                // solutions of one contract (c of their mutations) but distinct predicates
                predicate_to_solve: PredicateAddress { contract: addr(s.ms.first().map(|m| m.c).unwrap_or(1)), predicate: addr(1000 + i) },
                predicate_data: s.pd.iter().enumerate().map(|(j, l)| fill.slot(j, *l)).collect(),
                state_mutations: s.ms.iter().enumerate().map(|(j, m)| Mutation { key: fill.key(m.kid, m.kl), value: fill.value(j, m.vl) }).collect(),
            })
            .collect(),
    }
}

fn set_event(d: &[SolDesc]) -> J {
    set_event_fill(d, Fill::Uniform)
}

fn set_event_fill(d: &[SolDesc], fill: Fill) -> J {
    let set = build_set(d, fill);
    let res = solution::check_set(&set);
    let class = match &res {
        Ok(()) => "ok".to_string(),
        Err(e) => format!("{e:?}").chars().take(50).collect(),
    };
    // all mutations of a solution share that solution's contract
    J::O(vec![
        ("e", js("set")),
        ("fill", js(fill.name())),
        ("sols", J::A(d.iter().map(|s| {
            let c = s.ms.first().map(|m| m.c).unwrap_or(1);
            J::O(vec![
                ("pd", J::A(s.pd.iter().map(|l| ji(*l)).collect())),
                ("ms", J::A(s.ms.iter().map(|m| J::O(vec![("c", ji(c)), ("kid", ji(m.kid)), ("kl", ji(m.kl)), ("vl", ji(m.vl))])).collect())),
            ])
        }).collect())),
        ("ok", J::B(res.is_ok())),
        ("class", js(&class)),
        ("solutions_ok", J::B(solution::check_solutions(&set.solutions).is_ok())),
        ("mutations_ok", J::B(solution::check_set_state_mutations(&set).is_ok())),
    ])
}

fn build_pred(nn: usize, ne: usize) -> Predicate {
    Predicate { nodes: (0..nn).map(|_| Node { edge_start: u16::MAX, program_address: addr(7) }).collect(), edges: vec![0; ne] }
}

fn contract_event(ps: &[(usize, usize)], sig: Option<(&str, Signature)>) -> J {
    let preds: Vec<Predicate> = ps.iter().map(|(n, e)| build_pred(*n, *e)).collect();
    let mut f = vec![
        ("e", js("contract")),
        ("ps", J::A(ps.iter().map(|(n, e)| J::O(vec![("nn", ji(*n)), ("ne", ji(*e))])).collect())),
        ("ok", J::B(predicate::check_contract(&preds).is_ok())),
        ("each", J::A(preds.iter().map(|p| J::B(predicate::check(p).is_ok())).collect())),
    ];
    if let Some((how, sig)) = sig {
        let contract = Contract { predicates: preds, salt: [3; 32] };
        // is a key recoverable from this signature over the contract's address? (secp256k1 directly)
        let digest = essential_hash::content_addr(&contract).0;
        let recoverable = (|| {
            use secp256k1::{ecdsa::{RecoverableSignature, RecoveryId}, Message, Secp256k1};
            let rid = RecoveryId::try_from(i32::from(sig.1)).ok()?;
            let rs = RecoverableSignature::from_compact(&sig.0, rid).ok()?;
            Secp256k1::new().recover_ecdsa(&Message::from_digest(digest), &rs).ok()
        })()
        .is_some();
        let signed = SignedContract { contract, signature: sig };
        let res = std::panic::catch_unwind(|| predicate::check_signed_contract(&signed).is_ok());
        f.push(("sig", js(how)));
        f.push(("recoverable", J::B(recoverable)));
        match res {
            Ok(ok) => f.push(("signed_ok", J::B(ok))),
            Err(_) => f.push(("signed_panic", J::B(true))),
        }
    }
    J::O(f)
}

pub fn main(args: &Args) -> i32 {
    let mut b = Batcher::new(&args.out, "validators", 400);
    let mut rng = SmallRng::seed_from_u64(args.seed ^ 0x16);
    let mut n = 0u64;
    let mut push = |b: &mut Batcher, n: &mut u64, label: String, ev: J| {
        *n += 1;
        if *n % args.shard.1 == args.shard.0 {
            b.push_run(&label, vec![ev], json!({"label": label}));
        }
    };
    let around = |l: usize| [l.saturating_sub(1), l, l + 1];
    // dimensions of a set: number of solutions, pdata slots, pdata slot length, total mutations,
    // key length, value length, duplicates
    let base_sol = || SolDesc { pd: vec![1], ms: vec![] };
    let dims: Vec<(&str, usize)> = vec![("nsol", 100), ("npd", 100), ("pdlen", 10_000), ("nmut", 1000), ("klen", 1000), ("vlen", 10_000)];
    let make = |vals: &std::collections::HashMap<&str, usize>| -> Vec<SolDesc> {
        let nsol = *vals.get("nsol").unwrap_or(&2);
        let mut sols: Vec<SolDesc> = (0..nsol).map(|_| base_sol()).collect();
        if sols.is_empty() {
            return sols;
        }
        let last = sols.len() - 1;
        if let Some(npd) = vals.get("npd") {
            sols[last].pd = vec![1; *npd];
        }
        if let Some(l) = vals.get("pdlen") {
            if sols[last].pd.is_empty() {
                sols[last].pd.push(1);
            }
            let k = sols[last].pd.len() - 1;
            sols[last].pd[k] = *l;
        }
        let nmut = *vals.get("nmut").unwrap_or(&2);
        // spread the mutations over the solutions, all distinct keys
        for m in 0..nmut {
            let s = m % sols.len();
            sols[s].ms.push(MutD { c: 1, kid: 10 + m, kl: 2, vl: 1 });
        }
        if let Some(kl) = vals.get("klen") {
            if let Some(m) = sols[0].ms.last_mut() {
                m.kl = *kl;
            }
        }
        if let Some(vl) = vals.get("vlen") {
            if let Some(m) = sols[last].ms.first_mut() {
                m.vl = *vl;
            }
        }
        sols
    };
    // each limit alone, then pairwise
    for (d, lim) in &dims {
        for v in around(*lim) {
            let mut vals = std::collections::HashMap::new();
            vals.insert(*d, v);
            push(&mut b, &mut n, format!("set/{d}={v}"), super::guarded(|| set_event(&make(&vals))));
        }
    }
    for (i, (d1, l1)) in dims.iter().enumerate() {
        for (d2, l2) in dims.iter().skip(i + 1) {
            for v1 in [*l1, l1 + 1] {
                for v2 in [*l2, l2 + 1] {
                    let mut vals = std::collections::HashMap::new();
                    vals.insert(*d1, v1);
                    vals.insert(*d2, v2);
                    push(&mut b, &mut n, format!("set/{d1}={v1},{d2}={v2}"), super::guarded(|| set_event(&make(&vals))));
                }
            }
        }
    }
    {
        let mut vals = std::collections::HashMap::new();
        for (d, l) in &dims {
            vals.insert(*d, *l);
        }
        push(&mut b, &mut n, "set/all_at_limit".into(), super::guarded(|| set_event(&make(&vals))));
        push(&mut b, &mut n, "set/empty".into(), super::guarded(|| set_event(&[])));
    }
    // duplicates: same slot twice in one solution, across solutions of one contract, across contracts
    for (name, sols) in [
        ("dup_same_solution", vec![SolDesc { pd: vec![], ms: vec![MutD { c: 1, kid: 5, kl: 1, vl: 1 }, MutD { c: 1, kid: 5, kl: 1, vl: 2 }] }]),
        ("dup_two_solutions", vec![SolDesc { pd: vec![], ms: vec![MutD { c: 1, kid: 5, kl: 1, vl: 1 }] }, SolDesc { pd: vec![], ms: vec![MutD { c: 1, kid: 5, kl: 1, vl: 1 }] }]),
        ("same_key_other_contract", vec![SolDesc { pd: vec![], ms: vec![MutD { c: 1, kid: 5, kl: 1, vl: 1 }] }, SolDesc { pd: vec![], ms: vec![MutD { c: 2, kid: 5, kl: 1, vl: 1 }] }]),
        ("dup_and_key_too_large", vec![SolDesc { pd: vec![], ms: vec![MutD { c: 1, kid: 5, kl: 1001, vl: 1 }, MutD { c: 1, kid: 5, kl: 1001, vl: 1 }] }]),
    ] {
        push(&mut b, &mut n, format!("set/{name}"), super::guarded(|| set_event(&sols)));
    }
    // the validators look at sizes only: an oversized slot / key / value at every position among
    // three, under every fill (so that it is neither always the last nor always the "largest" one)
    for fill in [Fill::Uniform, Fill::Ascending, Fill::Descending, Fill::Mixed] {
        for pos in 0..3usize {
            for over in [false, true] {
                let mut pd = vec![1usize, 2, 1];
                pd[pos] = if over { 10_001 } else { 10_000 };
                let sols = vec![SolDesc { pd: vec![1], ms: vec![] }, SolDesc { pd, ms: vec![MutD { c: 1, kid: 3, kl: 1, vl: 1 }] }];
                push(&mut b, &mut n, format!("set/pos/pd/{}/{pos}/{over}", fill.name()), super::guarded(|| set_event_fill(&sols, fill)));
                let mut ms: Vec<MutD> = (0..3).map(|m| MutD { c: 1, kid: 20 + m, kl: 2, vl: 2 }).collect();
                ms[pos].kl = if over { 1001 } else { 1000 };
                let sols = vec![SolDesc { pd: vec![2], ms }];
                push(&mut b, &mut n, format!("set/pos/key/{}/{pos}/{over}", fill.name()), super::guarded(|| set_event_fill(&sols, fill)));
                let mut ms: Vec<MutD> = (0..3).map(|m| MutD { c: 1, kid: 20 + m, kl: 2, vl: 2 }).collect();
                ms[pos].vl = if over { 10_001 } else { 10_000 };
                let sols = vec![SolDesc { pd: vec![2], ms }];
                push(&mut b, &mut n, format!("set/pos/value/{}/{pos}/{over}", fill.name()), super::guarded(|| set_event_fill(&sols, fill)));
            }
        }
        // every solution is validated, whatever the solutions before it look like (seeded change
        // V2-C16: an early `return Ok(())` at the first solution without predicate data)
        for over in [false, true] {
            for (what, bad) in [("slots", SolDesc { pd: vec![1; if over { 101 } else { 100 }], ms: vec![] }),
                                ("len", SolDesc { pd: vec![2, if over { 10_001 } else { 10_000 }], ms: vec![] })] {
                for first in [SolDesc { pd: vec![], ms: vec![] }, SolDesc { pd: vec![0], ms: vec![] }, SolDesc { pd: vec![], ms: vec![MutD { c: 1, kid: 9, kl: 1, vl: 1 }] }] {
                    let tag = format!("{}{}", first.pd.len(), first.ms.len());
                    let sols = vec![first.clone(), bad.clone()];
                    push(&mut b, &mut n, format!("set/pos/after/{}/{what}/{tag}/{over}", fill.name()), super::guarded(|| set_event_fill(&sols, fill)));
                    let sols = vec![first.clone(), first.clone(), bad.clone(), first.clone()];
                    push(&mut b, &mut n, format!("set/pos/mid/{}/{what}/{tag}/{over}", fill.name()), super::guarded(|| set_event_fill(&sols, fill)));
                }
            }
        }
        // duplicates are recognised by key equality under every fill
        let sols = vec![SolDesc { pd: vec![], ms: vec![MutD { c: 1, kid: 5, kl: 3, vl: 1 }, MutD { c: 1, kid: 6, kl: 3, vl: 1 }, MutD { c: 1, kid: 5, kl: 3, vl: 2 }] }];
        push(&mut b, &mut n, format!("set/pos/dup/{}", fill.name()), super::guarded(|| set_event_fill(&sols, fill)));
    }
    // random small sets
    let count = if args.thorough { 3000 } else { 300 };
    for i in 0..count {
        let nsol = rng.gen_range(0..4);
        let sols: Vec<SolDesc> = (0..nsol)
            .map(|_| {
                let c = rng.gen_range(1..3);
                SolDesc {
                    pd: (0..rng.gen_range(0..3)).map(|_| if rng.gen_range(0..20) == 0 { 10_001 } else { rng.gen_range(0..4) }).collect(),
                    ms: (0..rng.gen_range(0..4)).map(|_| { let kid = rng.gen_range(1..4); MutD { c, kid, kl: if rng.gen_range(0..15) == 0 { 1001 } else { kid }, vl: if rng.gen_range(0..15) == 0 { 10_001 } else { rng.gen_range(0..3) } } }).collect(),
                }
            })
            .collect();
        // the key is determined by (kid, kl): make kl a function of kid except for the oversized ones
        let fill = [Fill::Uniform, Fill::Ascending, Fill::Descending, Fill::Mixed][i % 4];
        push(&mut b, &mut n, format!("set/rand/{i}"), super::guarded(|| set_event_fill(&sols, fill)));
    }
    // predicates / contracts
    for nn in around(1000) {
        for ne in around(1000) {
            push(&mut b, &mut n, format!("pred/{nn}/{ne}"), super::guarded(|| contract_event(&[(nn, ne)], None)));
        }
    }
    for np in around(100) {
        for (nn, ne) in [(1, 1), (1000, 1000), (1001, 0), (0, 1001)] {
            let mut ps = vec![(1usize, 1usize); np];
            if np > 0 {
                let k = np - 1;
                ps[k] = (nn, ne);
            }
            push(&mut b, &mut n, format!("contract/{np}/{nn}/{ne}"), super::guarded(|| contract_event(&ps, None)));
        }
    }
    // signed contracts
    {
        use secp256k1::{Secp256k1, SecretKey};
        let secp = Secp256k1::new();
        let _ = secp;
        let sk = SecretKey::from_slice(&[0x42; 32]).unwrap();
        for (np, nn) in [(1usize, 1usize), (100, 1), (101, 1), (1, 1001)] {
            let ps = vec![(nn, 1usize); np];
            let preds: Vec<Predicate> = ps.iter().map(|(n, e)| build_pred(*n, *e)).collect();
            let contract = Contract { predicates: preds, salt: [3; 32] };
            let good = essential_sign::contract::sign(contract, &sk).signature;
            let mut flipped = good.clone();
            flipped.0[5] ^= 0x10;
            let mut badid = good.clone();
            badid.1 = 7;
            let zero = Signature([0; 64], 0);
            let ff = Signature([0xFF; 64], 1);
            for (how, sig) in [("good", good.clone()), ("flipped", flipped), ("bad_recovery_id", badid), ("zero", zero), ("ff", ff)] {
                push(&mut b, &mut n, format!("signed/{np}/{nn}/{how}"), super::guarded(|| contract_event(&ps, Some((how, sig)))));
            }
        }
    }
    b.finish(json!({"driver": "validators"}))
}
