//! C16: the validators of crates/check at, just below and just above every documented limit,
//! pairwise with every other limit; inputs are logged as size descriptors (all the validators
//! inspect) and the verdicts are validated by spec/trace/TraceValidators.tla (Validators.tla with
//! the real constants).

use super::Batcher;
use crate::jv::{ji, js, J};
use crate::Args;
use essential_check::{predicate, solution};
use essential_types::{
    contract::{Contract, SignedContract},
    predicate::{Node, Predicate},
    solution::{Mutation, Solution, SolutionSet},
    ContentAddress, PredicateAddress, Signature,
};
use rand::rngs::SmallRng;
use rand::{Rng, SeedableRng};
use serde_json::json;

#[derive(Clone, Debug)]
struct MutD {
    c: usize,
    kid: usize,
    kl: usize,
    vl: usize,
}
#[derive(Clone, Debug, Default)]
struct SolDesc {
    pd: Vec<usize>,
    ms: Vec<MutD>,
}

fn addr(i: usize) -> ContentAddress {
    let mut a = [0u8; 32];
    a[..8].copy_from_slice(&(i as u64).to_be_bytes());
    ContentAddress(a)
}

fn build_set(d: &[SolDesc]) -> SolutionSet {
    SolutionSet {
        solutions: d
            .iter()
            .enumerate()
            .map(|(i, s)| Solution {
                // solutions of one contract (c of their mutations) but distinct predicates
                predicate_to_solve: PredicateAddress { contract: addr(s.ms.first().map(|m| m.c).unwrap_or(1)), predicate: addr(1000 + i) },
                predicate_data: s.pd.iter().map(|l| vec![0; *l]).collect(),
                state_mutations: s.ms.iter().map(|m| Mutation { key: vec![m.kid as i64; m.kl], value: vec![1; m.vl] }).collect(),
            })
            .collect(),
    }
}

fn set_event(d: &[SolDesc]) -> J {
    let set = build_set(d);
    let res = solution::check_set(&set);
    let class = match &res {
        Ok(()) => "ok".to_string(),
        Err(e) => format!("{e:?}").chars().take(50).collect(),
    };
    // all mutations of a solution share that solution's contract
    J::O(vec![
        ("e", js("set")),
        ("sols", J::A(d.iter().map(|s| {
            let c = s.ms.first().map(|m| m.c).unwrap_or(1);
            J::O(vec![
                ("pd", J::A(s.pd.iter().map(|l| ji(*l)).collect())),
                ("ms", J::A(s.ms.iter().map(|m| J::O(vec![("c", ji(c)), ("kid", ji(m.kid)), ("kl", ji(m.kl)), ("vl", ji(m.vl))])).collect())),
            ])
        }).collect())),
        ("ok", J::B(res.is_ok())),
        ("class", js(&class)),
        ("solutions_ok", J::B(solution::check_solutions(&set.solutions).is_ok())),
        ("mutations_ok", J::B(solution::check_set_state_mutations(&set).is_ok())),
    ])
}

fn build_pred(nn: usize, ne: usize) -> Predicate {
    Predicate { nodes: (0..nn).map(|_| Node { edge_start: u16::MAX, program_address: addr(7) }).collect(), edges: vec![0; ne] }
}

fn contract_event(ps: &[(usize, usize)], sig: Option<(&str, Signature)>) -> J {
    let preds: Vec<Predicate> = ps.iter().map(|(n, e)| build_pred(*n, *e)).collect();
    let mut f = vec![
        ("e", js("contract")),
        ("ps", J::A(ps.iter().map(|(n, e)| J::O(vec![("nn", ji(*n)), ("ne", ji(*e))])).collect())),
        ("ok", J::B(predicate::check_contract(&preds).is_ok())),
        ("each", J::A(preds.iter().map(|p| J::B(predicate::check(p).is_ok())).collect())),
    ];
    if let Some((how, sig)) = sig {
        let contract = Contract { predicates: preds, salt: [3; 32] };
        // is a key recoverable from this signature over the contract's address? (secp256k1 directly)
        let digest = essential_hash::content_addr(&contract).0;
        let recoverable = (|| {
            use secp256k1::{ecdsa::{RecoverableSignature, RecoveryId}, Message, Secp256k1};
            let rid = RecoveryId::try_from(i32::from(sig.1)).ok()?;
            let rs = RecoverableSignature::from_compact(&sig.0, rid).ok()?;
            Secp256k1::new().recover_ecdsa(&Message::from_digest(digest), &rs).ok()
        })()
        .is_some();
        let signed = SignedContract { contract, signature: sig };
        let res = std::panic::catch_unwind(|| predicate::check_signed_contract(&signed).is_ok());
        f.push(("sig", js(how)));
        f.push(("recoverable", J::B(recoverable)));
        match res {
            Ok(ok) => f.push(("signed_ok", J::B(ok))),
            Err(_) => f.push(("signed_panic", J::B(true))),
        }
    }
    J::O(f)
}

pub fn main(args: &Args) -> i32 {
    let mut b = Batcher::new(&args.out, "validators", 400);
    let mut rng = SmallRng::seed_from_u64(args.seed ^ 0x16);
    let mut n = 0u64;
    let mut push = |b: &mut Batcher, n: &mut u64, label: String, ev: J| {
        *n += 1;
        if *n % args.shard.1 == args.shard.0 {
            b.push_run(&label, vec![ev], json!({"label": label}));
        }
    };
    let around = |l: usize| [l.saturating_sub(1), l, l + 1];
    // dimensions of a set: number of solutions, pdata slots, pdata slot length, total mutations,
    // key length, value length, duplicates
    let base_sol = || SolDesc { pd: vec![1], ms: vec![] };
    let dims: Vec<(&str, usize)> = vec![("nsol", 100), ("npd", 100), ("pdlen", 10_000), ("nmut", 1000), ("klen", 1000), ("vlen", 10_000)];
    let make = |vals: &std::collections::HashMap<&str, usize>| -> Vec<SolDesc> {
        let nsol = *vals.get("nsol").unwrap_or(&2);
        let mut sols: Vec<SolDesc> = (0..nsol).map(|_| base_sol()).collect();
        if sols.is_empty() {
            return sols;
        }
        let last = sols.len() - 1;
        if let Some(npd) = vals.get("npd") {
            sols[last].pd = vec![1; *npd];
        }
        if let Some(l) = vals.get("pdlen") {
            if sols[last].pd.is_empty() {
                sols[last].pd.push(1);
            }
            let k = sols[last].pd.len() - 1;
            sols[last].pd[k] = *l;
        }
        let nmut = *vals.get("nmut").unwrap_or(&2);
        // spread the mutations over the solutions, all distinct keys
        for m in 0..nmut {
            let s = m % sols.len();
            sols[s].ms.push(MutD { c: 1, kid: 10 + m, kl: 2, vl: 1 });
        }
        if let Some(kl) = vals.get("klen") {
            if let Some(m) = sols[0].ms.last_mut() {
                m.kl = *kl;
            }
        }
        if let Some(vl) = vals.get("vlen") {
            if let Some(m) = sols[last].ms.first_mut() {
                m.vl = *vl;
            }
        }
        sols
    };
    // each limit alone, then pairwise
    for (d, lim) in &dims {
        for v in around(*lim) {
            let mut vals = std::collections::HashMap::new();
            vals.insert(*d, v);
            push(&mut b, &mut n, format!("set/{d}={v}"), super::guarded(|| set_event(&make(&vals))));
        }
    }
    for (i, (d1, l1)) in dims.iter().enumerate() {
        for (d2, l2) in dims.iter().skip(i + 1) {
            for v1 in [*l1, l1 + 1] {
                for v2 in [*l2, l2 + 1] {
                    let mut vals = std::collections::HashMap::new();
                    vals.insert(*d1, v1);
                    vals.insert(*d2, v2);
                    push(&mut b, &mut n, format!("set/{d1}={v1},{d2}={v2}"), super::guarded(|| set_event(&make(&vals))));
                }
            }
        }
    }
    {
        let mut vals = std::collections::HashMap::new();
        for (d, l) in &dims {
            vals.insert(*d, *l);
        }
        push(&mut b, &mut n, "set/all_at_limit".into(), super::guarded(|| set_event(&make(&vals))));
        push(&mut b, &mut n, "set/empty".into(), super::guarded(|| set_event(&[])));
    }
    // duplicates: same slot twice in one solution, across solutions of one contract, across contracts
    for (name, sols) in [
        ("dup_same_solution", vec![SolDesc { pd: vec![], ms: vec![MutD { c: 1, kid: 5, kl: 1, vl: 1 }, MutD { c: 1, kid: 5, kl: 1, vl: 2 }] }]),
        ("dup_two_solutions", vec![SolDesc { pd: vec![], ms: vec![MutD { c: 1, kid: 5, kl: 1, vl: 1 }] }, SolDesc { pd: vec![], ms: vec![MutD { c: 1, kid: 5, kl: 1, vl: 1 }] }]),
        ("same_key_other_contract", vec![SolDesc { pd: vec![], ms: vec![MutD { c: 1, kid: 5, kl: 1, vl: 1 }] }, SolDesc { pd: vec![], ms: vec![MutD { c: 2, kid: 5, kl: 1, vl: 1 }] }]),
        ("dup_and_key_too_large", vec![SolDesc { pd: vec![], ms: vec![MutD { c: 1, kid: 5, kl: 1001, vl: 1 }, MutD { c: 1, kid: 5, kl: 1001, vl: 1 }] }]),
    ] {
        push(&mut b, &mut n, format!("set/{name}"), super::guarded(|| set_event(&sols)));
    }
    // random small sets
    let count = if args.thorough { 3000 } else { 300 };
    for i in 0..count {
        let nsol = rng.gen_range(0..4);
        let sols: Vec<SolDesc> = (0..nsol)
            .map(|_| {
                let c = rng.gen_range(1..3);
                SolDesc {
                    pd: (0..rng.gen_range(0..3)).map(|_| if rng.gen_range(0..20) == 0 { 10_001 } else { rng.gen_range(0..4) }).collect(),
                    ms: (0..rng.gen_range(0..4)).map(|_| { let kid = rng.gen_range(1..4); MutD { c, kid, kl: if rng.gen_range(0..15) == 0 { 1001 } else { kid }, vl: if rng.gen_range(0..15) == 0 { 10_001 } else { rng.gen_range(0..3) } } }).collect(),
                }
            })
            .collect();
        // the key is determined by (kid, kl): make kl a function of kid except for the oversized ones
        push(&mut b, &mut n, format!("set/rand/{i}"), super::guarded(|| set_event(&sols)));
    }
    // predicates / contracts
    for nn in around(1000) {
        for ne in around(1000) {
            push(&mut b, &mut n, format!("pred/{nn}/{ne}"), super::guarded(|| contract_event(&[(nn, ne)], None)));
        }
    }
    for np in around(100) {
        for (nn, ne) in [(1, 1), (1000, 1000), (1001, 0), (0, 1001)] {
            let mut ps = vec![(1usize, 1usize); np];
            if np > 0 {
                let k = np - 1;
                ps[k] = (nn, ne);
            }
            push(&mut b, &mut n, format!("contract/{np}/{nn}/{ne}"), super::guarded(|| contract_event(&ps, None)));
        }
    }
    // signed contracts
    {
        use secp256k1::{Secp256k1, SecretKey};
        let secp = Secp256k1::new();
        let _ = secp;
        let sk = SecretKey::from_slice(&[0x42; 32]).unwrap();
        for (np, nn) in [(1usize, 1usize), (100, 1), (101, 1), (1, 1001)] {
            let ps = vec![(nn, 1usize); np];
            let preds: Vec<Predicate> = ps.iter().map(|(n, e)| build_pred(*n, *e)).collect();
            let contract = Contract { predicates: preds, salt: [3; 32] };
            let good = essential_sign::contract::sign(contract, &sk).signature;
            let mut flipped = good.clone();
            flipped.0[5] ^= 0x10;
            let mut badid = good.clone();
            badid.1 = 7;
            let zero = Signature([0; 64], 0);
            let ff = Signature([0xFF; 64], 1);
            for (how, sig) in [("good", good.clone()), ("flipped", flipped), ("bad_recovery_id", badid), ("zero", zero), ("ff", ff)] {
                push(&mut b, &mut n, format!("signed/{np}/{nn}/{how}"), super::guarded(|| contract_event(&ps, Some((how, sig)))));
            }
        }
    }
    b.finish(json!({"driver": "validators"}))
}
