//! Whole-program drivers for C05 / C07 / C09 / C10 / C14: programs are executed on the real VM
//! under the observer and every op of every VM (children included) is validated by TraceVm.tla.
//!
//!   --mode exh      bounded-exhaustive short programs over all ops and boundary immediates
//!   --mode rand     long random programs (loops, jumps, compute, state reads)
//!   --mode ctl      control-flow families: repeat counts/directions/nesting, jump distances, eval
//!   --mode gas      programs x cost functions x every gas limit 0..total+1, costs near u64::MAX
//!   --mode compute  Compute families: breadths, index dependent children, errors, halts, limits
//!   --mode equiv    the same program through exec_ops / exec_bytecode (owned, borrowed)

use super::vmops::{raw_cfg, std_cfg};
use super::Batcher;
use crate::gen;
use crate::obs::{RepSlot, Snap};
use crate::ops::{self, push};
use crate::run::{emit_run, run_traced, run_traced_on, Cost, How, Outcome, RunCfg};
use crate::Args;
use essential_asm::Op;
use rand::rngs::SmallRng;
use rand::{Rng, SeedableRng};
use serde_json::json;

fn by(n: &str) -> Op {
    ops::by_name(n).unwrap()
}

pub fn one(b: &mut Batcher, label: String, cfg: RunCfg) -> Outcome {
    if std::env::var("VH_VERBOSE").is_ok() {
        eprintln!("{label}");
    }
    let out = run_traced(&cfg);
    let em = emit_run(&cfg, &out, &label);
    if em.truncated {
        b.truncated += 1;
    }
    b.count("steps", em.steps as u64);
    match &out.outcome {
        Outcome::Ok(_) => b.count("ok", 1),
        Outcome::Oog(_) => b.count("oog", 1),
        Outcome::Err(_, c) => b.count(&format!("err:{c}"), 1),
        Outcome::Panic(_) => b.count("panic", 1),
        Outcome::Infeasible => b.count("infeasible", 1),
    }
    for (_, _, ev) in &out.evs {
        if let crate::obs::Ev::Op { op, ok, .. } = ev {
            b.count(&format!("{}:{}", if *ok { "op_ok" } else { "op_err" }, ops::name(op)), 1);
        }
    }
    b.push_run(&label, em.events, raw_cfg(&cfg));
    out.outcome
}

pub fn main(args: &Args) -> i32 {
    let mode = args.extra.get("mode").cloned().unwrap_or_else(|| "rand".into());
    let mut b = Batcher::new(&args.out, &format!("vmprog_{mode}"), 120_000);
    let mut rng = SmallRng::seed_from_u64(args.seed ^ 0x5EED ^ (args.shard.0 << 32));
    match mode.as_str() {
        "exh" => exh(args, &mut b),
        "rand" => rand_programs(args, &mut b, &mut rng),
        "ctl" => ctl(args, &mut b, &mut rng),
        "gas" => gas(args, &mut b, &mut rng),
        "compute" => compute(args, &mut b, &mut rng),
        "equiv" => equiv(args, &mut b, &mut rng),
        "sched" => sched(args, &mut b, &mut rng),
        "resume" => resume(args, &mut b, &mut rng),
        _ => {
            eprintln!("unknown mode {mode}");
            return 2;
        }
    }
    b.finish(json!({"driver": "vmprog", "mode": mode}))
}

fn mine(args: &Args, n: &mut u64) -> bool {
    *n += 1;
    *n % args.shard.1 == args.shard.0
}

// ---------------------------------------------------------------------------------------------
fn machines() -> Vec<(&'static str, Snap)> {
    vec![
        ("empty", Snap::default()),
        ("small", Snap { st: vec![1, 2, 3], mem: vec![7, 8, 9], ..Default::default() }),
        ("st4095", Snap { st: (0..4095).map(|i| (i % 3) as i64).collect(), mem: vec![7], ..Default::default() }),
        ("mem10239", Snap { st: vec![1, 1], mem: (0..10239).map(|i| (i % 3) as i64).collect(), ..Default::default() }),
        ("child", Snap { st: vec![2, 0], pm: vec![vec![4, 5, 6]], rep: vec![RepSlot { c: 0, up: true, lim: 2, ret: 0 }], ..Default::default() }),
    ]
}

fn exh(args: &Args, b: &mut Batcher) {
    let mut n = 0u64;
    let alpha = gen::alphabet(false);
    let ms = machines();
    // every program of 2 ops from every machine
    for (mi, (mname, m)) in ms.iter().enumerate() {
        if !args.thorough && mi >= 3 && mi != 4 {
            continue;
        }
        for a in &alpha {
            for c in &alpha {
                if !mine(args, &mut n) {
                    continue;
                }
                one(b, format!("exh2/{mname}/{}/{}", ops::name(a), ops::name(c)), std_cfg(vec![*a, *c], m.clone()));
            }
        }
    }
    // programs of 3 ops over the reduced alphabet (thorough: all; quick: a 1/12 slice)
    let red = gen::alphabet(true);
    let (mname, m) = &ms[1];
    for a in &red {
        for c in &red {
            for d in &red {
                if !mine(args, &mut n) {
                    continue;
                }
                if !args.thorough && n % 12 != 0 {
                    continue;
                }
                one(b, format!("exh3/{mname}/{}/{}/{}", ops::name(a), ops::name(c), ops::name(d)), std_cfg(vec![*a, *c, *d], m.clone()));
            }
        }
    }
}

fn rand_programs(args: &Args, b: &mut Batcher, rng: &mut SmallRng) {
    let count = if args.thorough { 12000 } else { 700 } / args.shard.1.max(1);
    for i in 0..count {
        let len = match rng.gen_range(0..10) {
            0 => rng.gen_range(200..600),
            _ => rng.gen_range(10..120),
        };
        let prog = gen::random_program(rng, len, true, 4);
        let m = if rng.gen_range(0..6) == 0 { machines()[rng.gen_range(0..5)].1.clone() } else { Snap::default() };
        let mut cfg = std_cfg(prog, m);
        cfg.max_breadth = 8;
        cfg.limit = 30_000; // random backward jumps may loop for ever
        one(b, format!("rand/{}/{}", args.shard.0, i), cfg);
    }
    // deep stacks and memories: fill to the real limits inside a loop
    for (i, (n, body)) in [
        (4100i64, vec![push(1)]),
        (2100, vec![push(1), by("DUP")]),
        (700, vec![push(16), by("ALOC"), by("POP")]),
        (4097, vec![push(2), push(1), by("REP")]),
    ]
    .into_iter()
    .enumerate()
    {
        if i as u64 % args.shard.1 != args.shard.0 {
            continue;
        }
        let mut prog = vec![push(n), push(1), by("REP")];
        prog.extend(body);
        prog.push(by("REPE"));
        one(b, format!("rand/fill/{i}"), std_cfg(prog, Snap::default()));
    }
}

// ---------------------------------------------------------------------------------------------
fn ctl(args: &Args, b: &mut Batcher, rng: &mut SmallRng) {
    let mut n = 0u64;
    let counts = [i64::MIN, -1, 0, 1, 2, 3, 5];
    // single loops: the counter sequence ends up on the stack
    for c in counts {
        for d in [-1i64, 0, 1, 2] {
            for how in [How::Ops, How::EvalOps] {
                if !mine(args, &mut n) {
                    continue;
                }
                let prog = vec![push(c), push(d), by("REP"), by("REPC"), by("REPE"), push(9), push(1)];
                let mut cfg = std_cfg(prog, Snap::default());
                cfg.how = how;
                one(b, format!("ctl/loop/{c}/{d}/{how:?}"), cfg);
            }
        }
    }
    // nested loops, 2 and 3 deep, counters recorded via REPC
    for c1 in [0i64, 1, 2, 3] {
        for c2 in [-1i64, 1, 2, 3] {
            for (d1, d2) in [(0i64, 0i64), (0, 1), (1, 0), (1, 1)] {
                if !mine(args, &mut n) {
                    continue;
                }
                let prog = vec![
                    push(c1), push(d1), by("REP"), by("REPC"),
                    push(c2), push(d2), by("REP"), by("REPC"), by("REPE"),
                    by("REPC"), by("REPE"), push(7),
                ];
                one(b, format!("ctl/nest2/{c1}/{c2}/{d1}{d2}"), std_cfg(prog, Snap::default()));
                let prog3 = vec![
                    push(c1), push(d1), by("REP"),
                    push(c2), push(d2), by("REP"),
                    push(2), push(1), by("REP"), by("REPC"), by("REPE"),
                    by("REPC"), by("REPE"),
                    by("REPC"), by("REPE"),
                ];
                one(b, format!("ctl/nest3/{c1}/{c2}/{d1}{d2}"), std_cfg(prog3, Snap::default()));
            }
        }
    }
    // JMPIF at every position of a 5-op frame
    let dists = [i64::MIN, -3, -2, -1, 0, 1, 2, 3, i64::MAX];
    for pos in 0..5usize {
        for d in dists {
            for c in [-1i64, 0, 1, 2] {
                if !mine(args, &mut n) {
                    continue;
                }
                // frame of cheap ops; the jump sits at `pos`; backward jumps may loop for ever,
                // which a finite gas limit turns into out-of-gas
                let mut prog: Vec<Op> = vec![];
                for i in 0..5 {
                    if i == pos {
                        prog.extend([push(d), push(c), by("JMPIF")]);
                    } else {
                        prog.extend([push(10 + i as i64), by("POP")]);
                    }
                }
                let mut cfg = std_cfg(prog, Snap::default());
                cfg.limit = 120;
                one(b, format!("ctl/jmp/{pos}/{d}/{c}"), cfg);
            }
        }
    }
    // RepeatEnd / RepeatCounter without a loop; halts; panics; eval of empty / non-boolean stacks
    let misc: Vec<(&str, Vec<Op>)> = vec![
        ("repe_noloop", vec![by("REPE")]),
        ("repc_noloop", vec![by("REPC")]),
        ("halt_mid", vec![push(1), by("HLT"), push(2)]),
        ("haltif1", vec![push(5), push(1), by("HLTIF"), push(2)]),
        ("haltif0", vec![push(5), push(0), by("HLTIF"), push(1)]),
        ("haltif2", vec![push(2), by("HLTIF")]),
        ("pncif1", vec![push(7), push(1), by("PNCIF")]),
        ("pncif0", vec![push(1), push(0), by("PNCIF")]),
        ("pncif9", vec![push(9), by("PNCIF")]),
        ("empty", vec![]),
        ("eval_two", vec![push(2)]),
        ("eval_neg", vec![push(-1)]),
        ("eval_one_under", vec![push(1), push(0)]),
        ("come_top", vec![push(1), by("COME"), push(2)]),
        // jump into a loop body from outside, and out of a loop body
        ("jump_into_loop", vec![push(5), push(1), by("JMPIF"), push(2), push(1), by("REP"), push(8), by("REPE")]),
        ("jump_out_of_loop", vec![push(3), push(1), by("REP"), push(3), push(1), by("JMPIF"), push(8), by("REPE"), push(4), by("REPE")]),
        ("loop_in_halt", vec![push(3), push(1), by("REP"), by("REPC"), push(1), by("EQ"), by("HLTIF"), by("REPE"), push(4)]),
    ];
    for (name, prog) in misc {
        for how in [How::Ops, How::EvalOps] {
            if !mine(args, &mut n) {
                continue;
            }
            let mut cfg = std_cfg(prog.clone(), Snap::default());
            cfg.how = how;
            one(b, format!("ctl/misc/{name}/{how:?}"), cfg);
        }
    }
    // repeat stack up to the real limit: 4096 nested REPs, then one more
    for extra in [0usize, 1] {
        if !mine(args, &mut n) {
            continue;
        }
        let mut prog = vec![];
        for _ in 0..(4096 + extra) {
            prog.extend([push(1), push(1), by("REP")]);
        }
        for _ in 0..20 {
            prog.push(by("REPE"));
        }
        one(b, format!("ctl/deep/{extra}"), std_cfg(prog, Snap::default()));
    }
    // random control-flow heavy programs
    let count = if args.thorough { 12000 } else { 300 } / args.shard.1.max(1);
    for i in 0..count {
        let mut g = gen::Gen::new(rng);
        g.allow_compute = false;
        g.allow_reads = false;
        let len = g.rng.gen_range(10..80);
        // bias: mostly loops and jumps
        for _ in 0..3 {
            g.block(len / 3, 1);
        }
        let prog = g.out;
        let mut cfg = std_cfg(prog, Snap::default());
        cfg.limit = 30_000;
        if i % 3 == 0 {
            cfg.how = How::EvalOps;
        }
        one(b, format!("ctl/rand/{}/{}", args.shard.0, i), cfg);
    }
}

// ---------------------------------------------------------------------------------------------
fn gas_programs() -> Vec<(&'static str, Vec<Op>)> {
    vec![
        ("straight", vec![push(1), push(2), by("ADD"), by("POP")]),
        ("backjump", vec![push(3), push(-1), by("ADD"), by("DUP"), push(0), by("GT"), push(-7), by("SWAP"), by("JMPIF")]),
        ("repeat_up", vec![push(3), push(1), by("REP"), push(7), by("POP"), by("REPE")]),
        ("repeat_down", vec![push(2), push(0), by("REP"), by("REPC"), by("POP"), by("REPE")]),
        ("compute2", vec![push(2), by("COM"), push(1), by("ALOC"), by("POP"), by("COME"), push(5)]),
        ("compute3_uneven", vec![push(3), by("COM"), by("DUP"), push(2), by("SWAP"), by("SUB"), push(1), by("SWAP"), push(0), by("GT"), by("JMPIF"), push(9), by("POP"), by("COME")]),
        ("loop_around_compute", vec![push(2), push(1), by("REP"), push(2), by("COM"), by("POP"), by("COME"), by("REPE")]),
        ("infinite", vec![push(-1), push(1), by("JMPIF")]),
    ]
}

fn gas(args: &Args, b: &mut Batcher, rng: &mut SmallRng) {
    let mut n = 0u64;
    for (name, prog) in gas_programs() {
        // uniform costs
        for c in [0u64, 1, 2, 7] {
            let total_guess: u64 = 60 * c.max(1);
            let lim_max = if name == "infinite" { 12 } else { total_guess + 1 };
            for limit in 0..=lim_max {
                if !mine(args, &mut n) {
                    continue;
                }
                if c == 0 && name == "infinite" {
                    continue; // cost 0: a finite limit bounds nothing (and the property assumes positive costs)
                }
                let mut cfg = std_cfg(prog.clone(), Snap::default());
                cfg.cost = Cost::uniform(c);
                cfg.limit = limit;
                one(b, format!("gas/{name}/c{c}/l{limit}"), cfg);
            }
        }
        // per-op costs, incl. zero-cost ops and costs near u64::MAX
        let tables: Vec<(&str, Vec<(&'static str, u64)>, u64, Vec<u64>)> = vec![
            ("mixed", vec![("PUSH", 0), ("ADD", 5), ("COM", 3), ("REPE", 2)], 1, (0..40).collect()),
            ("huge_op", vec![("POP", u64::MAX - 3)], 1, vec![0, 5, u64::MAX - 10, u64::MAX - 3, u64::MAX - 1, u64::MAX]),
            ("all_huge", vec![], u64::MAX - 1, vec![0, 1, u64::MAX - 2, u64::MAX - 1, u64::MAX]),
            ("half", vec![], u64::MAX - 100, vec![u64::MAX - 100, u64::MAX - 1, u64::MAX]),
            ("child_huge", vec![("ALOC", u64::MAX - 5), ("SUB", u64::MAX - 5)], 1, vec![10, u64::MAX - 4, u64::MAX - 1, u64::MAX]),
        ];
        for (tname, table, dflt, limits) in tables {
            for limit in limits {
                if !mine(args, &mut n) {
                    continue;
                }
                if name == "infinite" && limit > 1000 && dflt <= 1 {
                    continue;
                }
                let mut cfg = std_cfg(prog.clone(), Snap::default());
                cfg.cost = Cost { default: dflt, table: table.iter().cloned().collect() };
                cfg.limit = limit;
                one(b, format!("gas/{name}/{tname}/l{limit}"), cfg);
            }
        }
    }
    // random programs under random small limits
    let count = if args.thorough { 16000 } else { 400 } / args.shard.1.max(1);
    for i in 0..count {
        let len = rng.gen_range(5..60);
        let prog = gen::random_program(rng, len, true, 3);
        let mut cfg = std_cfg(prog, Snap::default());
        cfg.cost = Cost { default: rng.gen_range(0..4), table: [("COM", rng.gen_range(0..9)), ("PUSH", rng.gen_range(0..3))].into_iter().collect() };
        cfg.limit = rng.gen_range(0..120);
        cfg.max_breadth = 8;
        if cfg.cost.default == 0 {
            cfg.cost.default = 1;
        }
        one(b, format!("gas/rand/{}/{}", args.shard.0, i), cfg);
    }
}

// ---------------------------------------------------------------------------------------------
fn compute(args: &Args, b: &mut Batcher, rng: &mut SmallRng) {
    let mut n = 0u64;
    // child bodies; the child's stack is parent-stack + [index]
    let bodies: Vec<(&str, Vec<Op>)> = vec![
        ("nop", vec![by("COME")]),
        ("no_come", vec![]),
        // allocate index+1 words and store the index in the last one
        ("alloc_idx", vec![by("DUP"), push(1), by("ADD"), by("ALOC"), by("POP"), by("DUP"), by("DUP"), by("STO"), by("COME")]),
        // index-dependent path: child 0 skips an allocation
        ("branch", vec![by("DUP"), push(0), by("EQ"), push(4), by("SWAP"), by("JMPIF"), push(2), by("ALOC"), by("POP"), by("COME"), push(77)]),
        // read the parent's memory
        ("parent_mem", vec![push(1), by("ALOC"), by("POP"), by("DUP"), by("LODP"), push(0), by("STO"), by("COME")]),
        ("parent_range", vec![push(0), push(2), by("LODPR"), push(2), by("ALOC"), by("POP"), push(2), push(0), by("STOR"), by("COME")]),
        // child 1 halts, others run on
        ("halt_one", vec![by("DUP"), push(1), by("EQ"), by("HLTIF"), push(1), by("ALOC"), by("POP"), by("COME"), push(5)]),
        // child 2 fails
        ("err_one", vec![by("DUP"), push(2), by("EQ"), by("PNCIF"), by("COME")]),
        // nested compute
        ("nested", vec![push(2), by("COM"), by("COME"), by("COME")]),
        // children end at different positions: furthest wins
        ("uneven_pc", vec![by("DUP"), push(0), by("EQ"), by("HLTIF"), push(3), by("POP"), by("COME"), push(4), by("POP")]),
        // repeat end belonging to a parent loop (children inherit the repeat stack)
        ("big_alloc", vec![push(3000), by("ALOC"), by("POP"), by("COME")]),
        ("parent_mem_oob", vec![push(99), by("LODP"), by("COME")]),
        ("use_parent_stack", vec![push(1), by("DUPF"), push(1), by("ALOC"), by("STO"), by("COME")]),
    ];
    let breadths = [i64::MIN, -1, 0, 1, 2, 3, 4, 7];
    for (name, body) in &bodies {
        for br in breadths {
            for pm in [vec![], vec![40, 41, 42]] {
                if !mine(args, &mut n) {
                    continue;
                }
                let mut prog = vec![push(11), push(br), by("COM")];
                prog.extend(body.iter().copied());
                prog.extend([push(6), by("POP")]);
                let vm0 = Snap { mem: pm.clone(), ..Default::default() };
                let mut cfg = std_cfg(prog, vm0);
                cfg.max_breadth = 8;
                one(b, format!("com/{name}/{br}/{}", pm.len()), cfg);
            }
        }
    }
    // compute inside a parent loop, children see the parent's counter and may hit its REPE
    for br in [1i64, 2, 3] {
        if !mine(args, &mut n) {
            continue;
        }
        let prog = vec![push(2), push(1), by("REP"), push(br), by("COM"), by("REPC"), push(1), by("ALOC"), by("STO"), by("COME"), by("REPE"), push(3)];
        one(b, format!("com/in_loop/{br}"), std_cfg(prog, Snap::default()));
        let prog = vec![push(2), push(1), by("REP"), push(br), by("COM"), by("REPE"), push(3)];
        one(b, format!("com/child_hits_repe/{br}"), std_cfg(prog, Snap::default()));
    }
    // wide computes and the real limits
    let wide: Vec<(&str, i64, Vec<Op>, Snap)> = vec![
        ("wide1000", 1000, vec![push(1), by("ALOC"), by("STO"), by("COME")], Snap::default()),
        ("wide4096_mem_overflow", 4096, vec![push(3), by("ALOC"), by("POP"), by("COME")], Snap::default()),
        ("mem_exact", 10, vec![push(1024), by("ALOC"), by("POP"), by("COME")], Snap::default()),
        ("mem_exact_plus1", 10, vec![push(1024), by("ALOC"), by("POP"), by("COME")], Snap { mem: vec![0], ..Default::default() }),
        ("stack_full_index", 2, vec![by("COME")], Snap { st: (0..4095).map(|_| 0).collect(), ..Default::default() }),
        ("stack_4094", 2, vec![by("COME")], Snap { st: (0..4094).map(|_| 0).collect(), ..Default::default() }),
    ];
    for (name, br, body, vm0) in wide {
        if !mine(args, &mut n) {
            continue;
        }
        if !args.thorough && name == "wide4096_mem_overflow" {
            continue;
        }
        let mut prog = vec![push(br), by("COM")];
        prog.extend(body);
        prog.push(push(1));
        let mut cfg = std_cfg(prog, vm0);
        cfg.max_breadth = 5000;
        one(b, format!("com/{name}"), cfg);
    }
    // random programs with compute blocks
    let count = if args.thorough { 12000 } else { 300 } / args.shard.1.max(1);
    for i in 0..count {
        let len = rng.gen_range(10..70);
        let mut g = gen::Gen::new(rng);
        g.max_breadth = 5;
        g.p_compute_first(len);
        let prog = g.out;
        let mut cfg = std_cfg(prog, Snap { mem: vec![3, 4, 5], ..Default::default() });
        cfg.max_breadth = 8;
        cfg.limit = 30_000;
        one(b, format!("com/rand/{}/{}", args.shard.0, i), cfg);
    }
}

// ---------------------------------------------------------------------------------------------
fn equiv(args: &Args, b: &mut Batcher, rng: &mut SmallRng) {
    let count = if args.thorough { 10000 } else { 250 } / args.shard.1.max(1);
    let mut progs: Vec<Vec<Op>> = gas_programs().into_iter().map(|p| p.1).filter(|p| p.len() != 3).collect();
    for _ in 0..count {
        let len = rng.gen_range(5..80);
        progs.push(gen::random_program(rng, len, true, 4));
    }
    for (i, prog) in progs.into_iter().enumerate() {
        let mut m = if i % 5 == 0 || i % 3 == 1 { machines()[1].1.clone() } else { Snap::default() };
        // "from the same machine state" includes a program counter inside the program (a machine
        // that is continued after a halt or a partial run): every third case starts at pc 1..
        if i % 3 == 1 && prog.len() > 1 {
            m.pc = 1 + (i / 3) % (prog.len() - 1).min(7);
        }
        let mut outs = vec![];
        for how in [How::ExecOps, How::BytecodeOwned, How::BytecodeBorrowed] {
            let mut cfg = std_cfg(prog.clone(), m.clone());
            cfg.how = how;
            cfg.max_breadth = 8;
            cfg.limit = 30_000;
            let out = run_traced(&cfg);
            let em = emit_run(&cfg, &out, &format!("equiv/{}/{}/{:?}", args.shard.0, i, how));
            b.count("steps", em.steps as u64);
            b.push_run(&format!("equiv/{}/{}/{:?}", args.shard.0, i, how), em.events, raw_cfg(&cfg));
            outs.push((out.outcome, out.fin));
        }
        // direct comparison of the three executions (also implied by each being accepted by the
        // one specification; kept because it needs no phi guard)
        let same = outs.windows(2).all(|w| w[0] == w[1]);
        b.count(if same { "equiv_same" } else { "equiv_DIFFERENT" }, 1);
        if !same {
            b.samples.push(json!({"DIFFERENT": format!("{:?}", outs.iter().map(|o| &o.0).collect::<Vec<_>>()),
                                  "prog": prog.iter().map(|o| crate::jv::to_raw(&ops::op_json(o))).collect::<Vec<_>>()}));
        }
    }
}


/// C02 / C10: Compute under thread pools of 1..16 workers with the children held up so that they
/// finish in reverse index order / random order; every run validated by TraceVm and compared.
fn sched(args: &Args, b: &mut Batcher, rng: &mut SmallRng) {
    use std::sync::Arc;
    const TICK: i64 = -98;
    let count = if args.thorough { 120 } else { 14 } / args.shard.1.max(1);
    let pools: Vec<usize> = if args.thorough { vec![1, 2, 3, 4, 8, 16] } else { vec![1, 2, 4, 16] };
    for i in 0..count {
        let breadth = rng.gen_range(2..9i64);
        // child: tick(index); allocate index+1 words; store index; child k (random) halts early / fails
        let special = rng.gen_range(0..breadth);
        let mode = rng.gen_range(0..4);
        let mut prog = vec![push(3), by("ALOC"), by("POP"), push(breadth), by("COM")];
        prog.extend([by("DUP"), push(TICK), push(2), push(0), push(0), by("KRNG")]);
        prog.extend([by("DUP"), push(1), by("ADD"), by("ALOC"), by("POP"), by("DUP"), by("DUP"), by("STO")]);
        // every child asks PredicateExists (first use initialises the cache shared by all children):
        // a hit for the second solution's data hash, a miss for a perturbed one
        {
            let base_cfg = std_cfg(vec![], Snap::default());
            let h = crate::run::pex_hashes(&base_cfg.sols)[1];
            for w in h {
                prog.push(push(w));
            }
            prog.extend([by("PEX"), by("POP")]);
            prog.extend([push(h[0]), push(h[1]), push(h[2] ^ 1), push(h[3]), by("PEX"), by("POP")]);
        }
        match mode {
            0 => prog.extend([by("DUP"), push(special), by("EQ"), by("HLTIF")]),
            1 => prog.extend([by("DUP"), push(special), by("EQ"), by("PNCIF")]),
            _ => {}
        }
        prog.extend([push(0), by("LODP"), by("POP"), by("COME"), push(9)]);
        let mut sigs = vec![];
        for pool in &pools {
            for strat in ["none", "reverse", "random"] {
                if *pool == 1 && strat != "none" {
                    continue;
                }
                let seed: u64 = rng.gen();
                let st = strat.to_string();
                let mut cfg = std_cfg(prog.clone(), Snap::default());
                cfg.max_breadth = 16;
                cfg.limit = 10_000;
                cfg.how = How::ExecOps;
                if strat != "none" {
                    cfg.pre.delay = Some(Arc::new(move |key: &[i64]| {
                        if key.last() != Some(&TICK) {
                            return std::time::Duration::ZERO;
                        }
                        let idx = key[0].rem_euclid(16) as u64;
                        std::time::Duration::from_micros(if st == "reverse" { (16 - idx) * 200 } else { (seed ^ (idx * 0x9E37)) % 2000 })
                    }));
                }
                let tp = rayon::ThreadPoolBuilder::new().num_threads(*pool).build().expect("pool");
                let out = tp.install(|| run_traced(&cfg));
                let label = format!("vsched/{}/{i}/p{pool}/{strat}", args.shard.0);
                let em = emit_run(&cfg, &out, &label);
                b.count("steps", em.steps as u64);
                b.push_run(&label, em.events, raw_cfg(&cfg));
                sigs.push(format!("{:?} {:?}", out.outcome, out.fin));
            }
        }
        let same = sigs.windows(2).all(|w| w[0] == w[1]);
        b.count(if same { "sched_same" } else { "sched_DIFFERENT" }, 1);
        if !same {
            b.samples.push(json!({"DIFFERENT": sigs, "prog": prog.iter().map(|o| crate::jv::to_raw(&ops::op_json(o))).collect::<Vec<_>>()}));
        }
    }
}


/// Growth beyond the listed properties: `Vm::exec` can be called again on a machine that ran out
/// of gas (the refused op had no effect) and continues where it stopped.  Every program is cut at
/// every k-th limit and resumed; both legs are validated by TraceVm (the second starts from the
/// machine the first left behind, mid-loop repeat counters included) and cut + resume must end
/// where the uninterrupted run ends, with the gas adding up.
fn resume(args: &Args, b: &mut Batcher, rng: &mut SmallRng) {
    let mut progs: Vec<Vec<Op>> = gas_programs().into_iter().filter(|p| p.0 != "infinite").map(|p| p.1).collect();
    let count = if args.thorough { 1600 } else { 60 } / args.shard.1.max(1);
    for _ in 0..count {
        let len = rng.gen_range(5..50);
        progs.push(gen::random_program(rng, len, true, 3));
    }
    let mut n = 0u64;
    for (pi, prog) in progs.into_iter().enumerate() {
        let mut whole = std_cfg(prog.clone(), Snap::default());
        whole.limit = 5_000;
        whole.max_breadth = 8;
        let full = run_traced(&whole);
        let Outcome::Ok(total) = full.outcome else { continue };
        let step = if args.thorough { 1 } else { 3 };
        let mut limit = 0u64;
        while limit < total {
            n += 1;
            if n % args.shard.1 == args.shard.0 {
                let mut cfg1 = whole.clone();
                cfg1.limit = limit;
                let mut vm = crate::obs::build_vm(&cfg1.vm0);
                let out1 = run_traced_on(&cfg1, &mut vm);
                let em1 = emit_run(&cfg1, &out1, &format!("resume/{pi}/{limit}/a"));
                b.push_run(&format!("resume/{pi}/{limit}/a"), em1.events, raw_cfg(&cfg1));
                if matches!(out1.outcome, Outcome::Oog(pc) if prog.get(pc).map(|o| ops::name(o) == "COM").unwrap_or(false)) {
                    // refused while adding the children's gas at the join: the Compute has already
                    // had its effect (open finding F9, reported through TraceVm's KNOWN_F9) - not resumable
                    b.count("cut_at_join_f9", 1);
                } else if let Outcome::Oog(_) = out1.outcome {
                    let spent1 = out1.oog_spent.unwrap_or(0);
                    let mut cfg2 = whole.clone();
                    cfg2.vm0 = out1.fin.clone();
                    let out2 = run_traced_on(&cfg2, &mut vm);
                    let em2 = emit_run(&cfg2, &out2, &format!("resume/{pi}/{limit}/b"));
                    b.push_run(&format!("resume/{pi}/{limit}/b"), em2.events, raw_cfg(&cfg2));
                    let same = matches!(out2.outcome, Outcome::Ok(g2) if g2 + spent1 == total) && out2.fin == full.fin;
                    b.count(if same { "resume_same" } else { "resume_DIFFERENT" }, 1);
                    if !same {
                        b.samples.push(json!({"DIFFERENT": format!("cut at {limit}: {:?} then {:?} (spent {spent1}) vs uninterrupted {:?}", out1.outcome, out2.outcome, full.outcome),
                                              "prog": prog.iter().map(|o| crate::jv::to_raw(&ops::op_json(o))).collect::<Vec<_>>()}));
                    }
                } else {
                    b.count("cut_not_at_top_level", 1);
                }
            }
            limit += step;
        }
    }
}
