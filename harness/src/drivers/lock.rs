//! C20: StdLock under contention.  Threads apply read-modify-write closures of varying duration
//! to one or several locks; every closure logs Enter / Read v / Write v / Exit with a sequence
//! number taken INSIDE the closure (i.e. under the lock), the caller logs Return r afterwards.
//! spec/trace/TraceLock.tla accepts an Enter only while nobody holds that lock, a Read only of the
//! model's value, a Return only of the value that call wrote.

use super::Batcher;
use crate::jv::{ji, js, J};
use crate::Args;
use essential_lock::StdLock;
use rand::rngs::SmallRng;
use rand::{Rng, SeedableRng};
use serde_json::json;
use std::sync::atomic::{AtomicU64, Ordering};
use std::sync::{Arc, Mutex};
use std::time::Duration;

#[derive(Clone, Debug)]
struct Ev {
    seq: u64,
    t: usize,
    k: usize,
    kind: &'static str,
    v: i64,
}

fn pause(rng: &mut SmallRng, style: u32) {
    match style % 4 {
        0 => {}
        1 => std::thread::yield_now(),
        2 => {
            for _ in 0..rng.gen_range(0..2000) {
                std::hint::spin_loop();
            }
        }
        _ => std::thread::sleep(Duration::from_micros(rng.gen_range(0..300))),
    }
}

fn run(threads: usize, calls: usize, nlocks: usize, seed: u64, long_hold: bool) -> (Vec<Ev>, Vec<i64>, bool) {
    let seq = Arc::new(AtomicU64::new(0));
    let log = Arc::new(Mutex::new(Vec::<Ev>::new()));
    let locks: Arc<Vec<StdLock<i64>>> = Arc::new((0..nlocks).map(|_| StdLock::new(0)).collect());
    let mut hs = vec![];
    for t in 0..threads {
        let (seq, log, locks) = (seq.clone(), log.clone(), locks.clone());
        hs.push(std::thread::spawn(move || {
            let mut rng = SmallRng::seed_from_u64(seed ^ (t as u64 * 7919));
            let mut mine = vec![];
            for c in 0..calls {
                let k = rng.gen_range(0..locks.len());
                let style = rng.gen::<u32>();
                let r = locks[k].apply(|v: &mut i64| {
                    let mut local = vec![];
                    local.push(Ev { seq: seq.fetch_add(1, Ordering::SeqCst), t, k, kind: "enter", v: 0 });
                    let read = *v;
                    local.push(Ev { seq: seq.fetch_add(1, Ordering::SeqCst), t, k, kind: "read", v: read });
                    if long_hold && c % 3 == 0 {
                        std::thread::sleep(Duration::from_millis(2));
                    } else {
                        pause(&mut rng, style);
                    }
                    *v = read + 1;
                    local.push(Ev { seq: seq.fetch_add(1, Ordering::SeqCst), t, k, kind: "write", v: read + 1 });
                    local.push(Ev { seq: seq.fetch_add(1, Ordering::SeqCst), t, k, kind: "exit", v: 0 });
                    mine.extend(local);
                    read + 1
                });
                mine.push(Ev { seq: seq.fetch_add(1, Ordering::SeqCst), t, k, kind: "return", v: r });
                pause(&mut rng, style >> 8);
            }
            log.lock().unwrap().extend(mine);
        }));
    }
    // all threads must come back (deadlock watchdog)
    let deadline = std::time::Instant::now() + Duration::from_secs(60);
    let mut all_joined = true;
    for h in hs {
        while !h.is_finished() {
            if std::time::Instant::now() > deadline {
                all_joined = false;
                break;
            }
            std::thread::sleep(Duration::from_millis(1));
        }
        if h.is_finished() {
            let _ = h.join();
        }
    }
    let mut evs = std::mem::take(&mut *log.lock().unwrap());
    evs.sort_by_key(|e| e.seq);
    let finals = locks.iter().map(|l| l.apply(|v| *v)).collect();
    (evs, finals, all_joined)
}

/// Non-reentrant use of TWO locks by one thread: the closure applied to lock 0 applies a closure to
/// lock 1 (always in this order, so there is no lock-order cycle).  Returns (final value of lock 0,
/// final value of lock 1, all threads came back, number of calls that panicked or returned a value
/// other than their closure's).
fn nested(threads: usize, iters: usize) -> (i64, i64, bool, usize) {
    let locks: Arc<Vec<StdLock<i64>>> = Arc::new((0..2).map(|_| StdLock::new(0)).collect());
    let bad = Arc::new(AtomicU64::new(0));
    let mut hs = vec![];
    for _ in 0..threads {
        let (locks, bad) = (locks.clone(), bad.clone());
        hs.push(std::thread::spawn(move || {
            for _ in 0..iters {
                let r = std::panic::catch_unwind(std::panic::AssertUnwindSafe(|| {
                    locks[0].apply(|a: &mut i64| {
                        *a += 1;
                        let mine = *a;
                        let (inner_ret, inner_val) = {
                            let mut seen = 0;
                            let r = locks[1].apply(|b: &mut i64| {
                                *b += 1;
                                seen = *b;
                                *b * 10
                            });
                            (r, seen)
                        };
                        (mine, inner_ret == inner_val * 10)
                    })
                }));
                match r {
                    Ok((_, true)) => {}
                    _ => {
                        bad.fetch_add(1, Ordering::SeqCst);
                    }
                }
            }
        }));
    }
    let deadline = std::time::Instant::now() + Duration::from_secs(60);
    let mut joined = true;
    for h in hs {
        while !h.is_finished() {
            if std::time::Instant::now() > deadline {
                joined = false;
                break;
            }
            std::thread::sleep(Duration::from_millis(1));
        }
        if h.is_finished() {
            let _ = h.join();
        }
    }
    let fin = |k: usize| std::panic::catch_unwind(std::panic::AssertUnwindSafe(|| locks[k].apply(|v| *v))).unwrap_or(-1);
    (fin(0), fin(1), joined, bad.load(Ordering::SeqCst) as usize)
}

pub fn main(args: &Args) -> i32 {
    let mut b = Batcher::new(&args.out, "lock", 60_000);
    let mut rng = SmallRng::seed_from_u64(args.seed ^ 0x10C);
    let configs: Vec<(usize, usize, usize, bool)> = if args.thorough {
        vec![(2, 2000, 1, false), (3, 1500, 2, false), (4, 1000, 1, false), (8, 800, 3, false), (16, 600, 2, false), (16, 2000, 1, false), (32, 800, 2, false), (64, 200, 3, false), (4, 60, 1, true), (8, 40, 2, true), (12, 40, 1, true), (16, 30, 1, true)]
    } else {
        vec![(2, 400, 1, false), (3, 300, 2, false), (8, 200, 3, false), (16, 150, 1, false), (4, 30, 1, true)]
    };
    for (i, (threads, calls, nlocks, long_hold)) in configs.into_iter().enumerate() {
        let seed = rng.gen();
        let (evs, finals, joined) = run(threads, calls, nlocks, seed, long_hold);
        let mut out = vec![J::O(vec![("e", js("start")), ("threads", ji(threads)), ("locks", ji(nlocks)), ("calls", ji(calls))])];
        for e in &evs {
            out.push(J::O(vec![("e", js(e.kind)), ("t", ji(e.t)), ("k", ji(e.k)), ("v", J::I(e.v))]));
        }
        out.push(J::O(vec![("e", js("end")), ("finals", J::A(finals.iter().map(|v| J::I(*v)).collect())), ("joined", J::B(joined)), ("total", ji(threads * calls))]));
        b.count("closures", (threads * calls) as u64);
        b.push_run(&format!("lock/{i}/{threads}x{calls}x{nlocks}"), out, json!({"threads": threads, "calls": calls, "locks": nlocks, "seed": seed, "long_hold": long_hold}));
    }
    // nested applies on two different locks (non-reentrant): every call returns, nothing is lost
    for (i, (threads, iters)) in [(1usize, 50usize), (4, 200), (16, 100)].into_iter().enumerate() {
        let (a, bb, joined, badc) = nested(threads, iters);
        let ev = J::O(vec![("e", js("nested")), ("threads", ji(threads)), ("iters", ji(iters)), ("a", J::I(a)), ("b", J::I(bb)), ("joined", J::B(joined)), ("bad", ji(badc))]);
        b.count("closures", (2 * threads * iters) as u64);
        b.push_run(&format!("lock/nested/{i}/{threads}x{iters}"), vec![ev], json!({"nested": true, "threads": threads, "iters": iters}));
    }
    b.finish(json!({"driver": "lock"}))
}
