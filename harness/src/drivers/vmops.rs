//! C08 (and the shared single-step part of C05/C11/C12): one-operation transitions of the real VM
//! - boundary-exhaustive: every op x every stack of <= 3 (thorough: 4) words over
//!   {i64::MIN, -1, 0, 1, 2, 3, i64::MAX} x three machine shapes,
//! - at the real limits (stack 4094..4096, memory 10238..10240),
//! - structured: well-formed and slightly broken operand layouts for the range / set / length
//!   prefixed ops, generated at random.
//! Every case is executed through `Vm::exec_ops` under the observer and validated by TraceVm.tla.

use super::Batcher;
use crate::obs::{ContractMap, Mode, RepSlot, Snap, View};
use crate::ops::{self, push};
use crate::run::{default_solution, emit_run, run_traced, small_addr, RunCfg};
use crate::Args;
use essential_asm::Op;
use rand::rngs::SmallRng;
use rand::{Rng, SeedableRng};
use serde_json::json;

pub const B: [i64; 7] = [i64::MIN, -1, 0, 1, 2, 3, i64::MAX];

pub fn raw_cfg(cfg: &RunCfg) -> serde_json::Value {
    json!({
        "prog": cfg.prog.iter().map(|o| crate::jv::to_raw(&ops::op_json(o))).collect::<Vec<_>>(),
        "vm": {"pc": cfg.vm0.pc, "st": cfg.vm0.st, "mem": cfg.vm0.mem, "pm": cfg.vm0.pm,
               "rep": cfg.vm0.rep.iter().map(|r| json!({"c": r.c, "up": r.up, "lim": r.lim, "ret": r.ret})).collect::<Vec<_>>()},
        "pdata": cfg.sols[cfg.idx].predicate_data,
        "limit": cfg.limit,
        "cost_default": cfg.cost.default,
        "how": format!("{:?}", cfg.how),
    })
}

pub fn shapes() -> Vec<Snap> {
    vec![
        Snap::default(),
        Snap {
            mem: vec![11, 12, 13],
            pm: vec![vec![21, 22, 23]],
            rep: vec![RepSlot { c: 0, up: true, lim: 2, ret: 0 }],
            ..Default::default()
        },
        Snap {
            mem: vec![11, 12, 13, 14, 15, 16],
            rep: vec![RepSlot { c: 2, up: false, lim: 0, ret: 0 }],
            ..Default::default()
        },
    ]
}

pub fn std_state() -> (View, View) {
    let mut pre = ContractMap::new();
    let mut post = ContractMap::new();
    let own = small_addr(1001);
    let ext = small_addr(0);
    for (m, base) in [(&mut pre, 100i64), (&mut post, 500i64)] {
        for c in [own, ext] {
            let e = m.entry(c).or_default();
            e.insert(vec![0], vec![base + 1]);
            e.insert(vec![1], vec![base + 2, base + 3]);
            e.insert(vec![2], vec![]);
            e.insert(vec![3], vec![base + 4, base + 5, base + 6]);
            e.insert(vec![1, 2], vec![base + 7]);
            e.insert(vec![i64::MAX], vec![base + 8]);
            e.insert(vec![0, i64::MAX], vec![base + 9]);
            e.insert(vec![1, i64::MIN], vec![base + 10]);
        }
    }
    (View::new("pre", pre, Mode::Lenient), View::new("post", post, Mode::Lenient))
}

pub fn std_cfg(prog: Vec<Op>, vm0: Snap) -> RunCfg {
    let mut sol = default_solution();
    sol.predicate_data = vec![vec![1, 2, 3], vec![4], vec![]];
    let mut other = default_solution();
    other.predicate_to_solve.predicate = essential_types::ContentAddress(small_addr(3001));
    other.predicate_data = vec![vec![9]];
    let (pre, post) = std_state();
    RunCfg { sols: vec![sol, other], pre, post, vm0, ..RunCfg::simple(prog) }
}

fn all_ops() -> Vec<Op> {
    let mut v = ops::all_plain();
    v.push(push(5));
    v.push(push(i64::MAX));
    v
}

fn stacks(maxlen: usize) -> Vec<Vec<i64>> {
    let mut out = vec![vec![]];
    let mut level = vec![vec![]];
    for _ in 0..maxlen {
        let mut next = vec![];
        for s in &level {
            for b in B {
                let mut t: Vec<i64> = s.clone();
                t.push(b);
                next.push(t);
            }
        }
        out.extend(next.iter().cloned());
        level = next;
    }
    out
}

fn feasible(_cfg: &RunCfg) -> bool {
    true
}

fn one(b: &mut Batcher, label: String, cfg: RunCfg) {
    if !feasible(&cfg) {
        b.count("skipped_infeasible", 1);
        return;
    }
    let out = run_traced(&cfg);
    let em = emit_run(&cfg, &out, &label);
    if em.truncated {
        b.truncated += 1;
    }
    b.count("steps", em.steps as u64);
    let opn = ops::name(&cfg.prog[cfg.vm0.pc.min(cfg.prog.len() - 1)]);
    match &out.outcome {
        crate::run::Outcome::Ok(_) => b.count(&format!("ok:{opn}"), 1),
        crate::run::Outcome::Panic(_) => b.count("panic", 1),
        _ => b.count(&format!("err:{opn}"), 1),
    }
    b.push_run(&label, em.events, raw_cfg(&cfg));
}

pub fn main(args: &Args) -> i32 {
    // --ops A,B,C restricts the driver to these operations
    let only: Option<Vec<String>> = args.extra.get("ops").map(|s| s.split(',').map(|x| x.to_string()).collect());
    let wanted = |op: &Op| only.as_ref().map(|o| o.iter().any(|n| n == ops::name(op))).unwrap_or(true);
    let mut b = Batcher::new(&args.out, "vmops", 150_000);
    let mut rng = SmallRng::seed_from_u64(args.seed ^ 0xC08);
    let maxlen = if args.thorough { 4 } else { 3 };
    let sts = stacks(maxlen);
    let shapes = shapes();
    let mut n = 0u64;
    // (A) boundary-exhaustive single ops
    for op in all_ops().into_iter().filter(|o| wanted(o)) {
        for (si, st) in sts.iter().enumerate() {
            for (hi, sh) in shapes.iter().enumerate() {
                n += 1;
                if n % args.shard.1 != args.shard.0 {
                    continue;
                }
                let mut vm0 = sh.clone();
                vm0.st = st.clone();
                one(&mut b, format!("A/{}/{}/{}", ops::name(&op), si, hi), std_cfg(vec![op], vm0));
            }
        }
    }
    // (B) at the real limits
    let tops: Vec<Vec<i64>> = stacks(2).into_iter().filter(|s| s.len() == 2).collect();
    for op in all_ops().into_iter().filter(|o| wanted(o)) {
        for fill in [4094usize, 4095, 4096] {
            for (ti, top) in tops.iter().enumerate() {
                n += 1;
                if n % args.shard.1 != args.shard.0 {
                    continue;
                }
                if ti % (if args.thorough { 2 } else { 6 }) != 0 {
                    continue;
                }
                let mut st: Vec<i64> = (0..fill - 2).map(|i| (i % 7) as i64).collect();
                st.extend(top);
                let vm0 = Snap { st, mem: vec![11, 12, 13], ..Default::default() };
                one(&mut b, format!("B/st/{}/{}/{}", ops::name(&op), fill, ti), std_cfg(vec![op], vm0));
            }
        }
    }
    for opn in ["ALOC", "FREE", "LOD", "STO", "LODR", "STOR", "KRNG", "PKRNG", "COM"] {
        let op = ops::by_name(opn).unwrap();
        if !wanted(&op) {
            continue;
        }
        for msize in [10238usize, 10239, 10240] {
            for st in sts.iter().filter(|s| s.len() <= 2) {
                n += 1;
                if n % args.shard.1 != args.shard.0 {
                    continue;
                }
                let mem: Vec<i64> = (0..msize).map(|i| (i % 5) as i64).collect();
                let vm0 = Snap { st: st.clone(), mem, ..Default::default() };
                one(&mut b, format!("B/mem/{}/{}", opn, msize), std_cfg(vec![op], vm0));
            }
        }
    }
    // repeat stack at its limit
    for fill in [4095usize, 4096] {
        for up in [0i64, 1] {
            n += 1;
            if n % args.shard.1 != args.shard.0 {
                continue;
            }
            let rep = (0..fill).map(|i| RepSlot { c: 0, up: true, lim: (i % 3) as i64, ret: 1 }).collect();
            let vm0 = Snap { st: vec![3, up], rep, ..Default::default() };
            one(&mut b, format!("B/rep/{fill}/{up}"), std_cfg(vec![ops::by_name("REP").unwrap()], vm0));
        }
    }
    // (C) structured operand layouts
    let per = if args.thorough { 20000 } else { 1200 };
    for i in 0..per {
        n += 1;
        if n % args.shard.1 != args.shard.0 {
            continue;
        }
        for (k, (op, vm0)) in structured(&mut rng).into_iter().enumerate().filter(|(_, (o, _))| wanted(o)) {
            one(&mut b, format!("C/{}/{}/{}", ops::name(&op), i, k), std_cfg(vec![op], vm0));
        }
    }
    b.finish(json!({"driver": "vmops", "maxlen": maxlen}))
}

fn rw(rng: &mut SmallRng) -> i64 {
    match rng.gen_range(0..10) {
        0 => i64::MAX,
        1 => i64::MIN,
        2 => -1,
        _ => rng.gen_range(-3..12),
    }
}
fn rwords(rng: &mut SmallRng, n: usize) -> Vec<i64> {
    (0..n).map(|_| rw(rng)).collect()
}
/// perturb a length word now and then
fn plen(rng: &mut SmallRng, n: usize) -> i64 {
    match rng.gen_range(0..12) {
        0 => n as i64 + 1,
        1 => n as i64 - 1,
        2 => -1,
        3 => i64::MAX,
        _ => n as i64,
    }
}

/// One well-formed (or slightly broken) case per range/set/length-prefixed op.
pub fn structured(rng: &mut SmallRng) -> Vec<(Op, Snap)> {
    let mut out = vec![];
    let by = |n: &str| ops::by_name(n).unwrap();
    let base = |rng: &mut SmallRng| {
        let n = rng.gen_range(0..4);
        rwords(rng, n)
    };
    // EQRA: [A.., B.., len]
    {
        let n = rng.gen_range(0..6);
        let a = rwords(rng, n);
        let bb = if rng.gen_bool(0.5) { a.clone() } else { rwords(rng, n) };
        let mut st = base(rng);
        st.extend(&a);
        st.extend(&bb);
        st.push(plen(rng, n));
        out.push((by("EQRA"), Snap { st, ..Default::default() }));
    }
    // SLTR: [A.., B.., len, cond]
    {
        let n = rng.gen_range(0..6);
        let mut st = base(rng);
        st.extend(rwords(rng, n));
        st.extend(rwords(rng, n));
        st.push(plen(rng, n));
        st.push(*[0, 1, 1, 0, 2, -1].get(rng.gen_range(0..6)).unwrap());
        out.push((by("SLTR"), Snap { st, ..Default::default() }));
    }
    // EQST: [lhs items.., lhs_len, rhs items.., rhs_len] with each item = words.., item_len
    {
        let mk = |rng: &mut SmallRng, items: &Vec<Vec<i64>>| {
            let mut v = vec![];
            for it in items {
                v.extend(it);
                v.push(plen(rng, it.len()));
            }
            let total = v.len();
            v.push(plen(rng, total));
            v
        };
        let k = rng.gen_range(0..4);
        let items: Vec<Vec<i64>> = (0..k).map(|_| { let n = rng.gen_range(0..3); (0..n).map(|_| rng.gen_range(0..3)).collect() }).collect();
        let mut other = items.clone();
        match rng.gen_range(0..5) {
            0 => other.reverse(),
            1 => {
                if let Some(f) = other.first().cloned() {
                    other.push(f)
                }
            }
            2 => {
                other.pop();
            }
            3 => {
                if let Some(f) = other.first_mut() {
                    f.push(7)
                }
            }
            _ => {}
        }
        let mut st = base(rng);
        st.extend(mk(rng, &items));
        st.extend(mk(rng, &other));
        out.push((by("EQST"), Snap { st, ..Default::default() }));
    }
    // DROP / RES / DUPF / SWAPI / LODS / STOS with in-range and edge indices
    {
        let n = rng.gen_range(0..8);
        let body = rwords(rng, n);
        for opn in ["DROP", "RES", "DUPF", "SWAPI", "LODS"] {
            let mut st = body.clone();
            st.push(match rng.gen_range(0..8) {
                0 => n as i64,
                1 => n as i64 - 1,
                2 => n as i64 + 1,
                3 => -1,
                _ => rng.gen_range(0..(n as i64 + 1)),
            });
            out.push((by(opn), Snap { st, ..Default::default() }));
        }
        let mut st = body.clone();
        st.push(rw(rng));
        st.push(rng.gen_range(-1..(n as i64 + 2)));
        out.push((by("STOS"), Snap { st, ..Default::default() }));
    }
    // memory ops on a random memory
    {
        let m = rng.gen_range(0..10);
        let mem = rwords(rng, m);
        let addr = |rng: &mut SmallRng| rng.gen_range(-1..(m as i64 + 2));
        let mut st = base(rng);
        st.push(addr(rng));
        out.push((by("LOD"), Snap { st, mem: mem.clone(), ..Default::default() }));
        let mut st = base(rng);
        st.push(rw(rng));
        st.push(addr(rng));
        out.push((by("STO"), Snap { st, mem: mem.clone(), ..Default::default() }));
        let mut st = base(rng);
        st.push(addr(rng));
        st.push(rng.gen_range(-1..(m as i64 + 2)));
        out.push((by("LODR"), Snap { st, mem: mem.clone(), ..Default::default() }));
        let mut st = base(rng);
        let n = rng.gen_range(0..5);
        st.extend(rwords(rng, n));
        st.push(plen(rng, n));
        st.push(addr(rng));
        out.push((by("STOR"), Snap { st, mem: mem.clone(), ..Default::default() }));
        let mut st = base(rng);
        st.push(rng.gen_range(-1..(m as i64 + 2)));
        out.push((by("FREE"), Snap { st, mem: mem.clone(), ..Default::default() }));
        let mut st = base(rng);
        st.push(rng.gen_range(-1..6));
        out.push((by("ALOC"), Snap { st, mem: mem.clone(), ..Default::default() }));
        // parent memory
        let mut st = base(rng);
        st.push(addr(rng));
        out.push((by("LODP"), Snap { st, pm: vec![mem.clone()], ..Default::default() }));
        let mut st = base(rng);
        st.push(addr(rng));
        st.push(rng.gen_range(-1..(m as i64 + 2)));
        out.push((by("LODPR"), Snap { st, pm: vec![mem.clone()], mem: vec![1, 2], ..Default::default() }));
    }
    // predicate data: slots [[1,2,3],[4],[]]
    {
        let mut st = base(rng);
        st.push(rng.gen_range(-1..4));
        st.push(rng.gen_range(-1..4));
        st.push(rng.gen_range(-1..5));
        out.push((by("DATA"), Snap { st, ..Default::default() }));
        let mut st = base(rng);
        st.push(rng.gen_range(-1..4));
        out.push((by("DLEN"), Snap { st, ..Default::default() }));
    }
    // key range reads: [ext?4, key.., key_len, count, mem_addr]
    for opn in ["KRNG", "KREX", "PKRNG", "PKREX"] {
        let m = rng.gen_range(0..24);
        let mem = rwords(rng, m);
        let mut st = base(rng);
        if opn.ends_with("EX") {
            let a = if rng.gen_bool(0.7) { 0 } else { 1001 };
            st.extend([a, a + 1, a + 2, a + 3]);
        }
        let key: Vec<i64> = match rng.gen_range(0..6) {
            0 => vec![i64::MAX],
            1 => vec![0, i64::MAX],
            2 => vec![1, 2],
            3 => vec![],
            _ => vec![rng.gen_range(0..4)],
        };
        st.extend(&key);
        st.push(plen(rng, key.len()));
        st.push(rng.gen_range(-1..5));
        st.push(rng.gen_range(-1..(m as i64 + 1)));
        out.push((by(opn), Snap { st, mem, ..Default::default() }));
    }
    // crypto: SHA2 over n bytes
    {
        let nbytes = rng.gen_range(0..40usize);
        let nw = nbytes.div_ceil(8);
        let mut st = base(rng);
        for _ in 0..nw {
            st.push(rng.gen());
        }
        st.push(match rng.gen_range(0..10) { 0 => nbytes as i64 + 8, 1 => -1, _ => nbytes as i64 });
        out.push((by("SHA2"), Snap { st, ..Default::default() }));
    }
    // control flow single steps
    {
        let mut st = base(rng);
        st.push(rng.gen_range(-3..4));
        st.push(rng.gen_range(-1..3));
        out.push((by("JMPIF"), Snap { st, ..Default::default() }));
        let mut st = base(rng);
        st.push(rng.gen_range(-2..5));
        st.push(rng.gen_range(-1..3));
        out.push((by("REP"), Snap { st, ..Default::default() }));
    }
    out
}


/// C11: the four key-range reads against scripted, recording pre / post views with different
/// contents: every (op, key, count, address, memory size, answer shape) of the small scope, then
/// random requests.
pub fn main_stateread(args: &Args) -> i32 {
    let mut b = Batcher::new(&args.out, "stateread", 100_000);
    let mut rng = SmallRng::seed_from_u64(args.seed ^ 0xC11);
    let mut n = 0u64;
    let vals: Vec<Vec<i64>> = vec![vec![], vec![7], vec![7, 8]];
    let mut answers: Vec<Vec<Vec<i64>>> = vec![vec![]];
    for k in 1..=3usize {
        let total = 3usize.pow(k as u32);
        for c in 0..total {
            let mut x = c;
            answers.push((0..k).map(|_| { let v = vals[x % 3].clone(); x /= 3; v }).collect());
        }
    }
    let keys: Vec<Vec<i64>> = vec![vec![], vec![9], vec![9, i64::MAX]];
    let view = |tag: &'static str, mode: Mode| View::new(tag, Default::default(), mode);
    for opn in ["KRNG", "KREX", "PKRNG", "PKREX"] {
        let op = ops::by_name(opn).unwrap();
        let is_post = opn.starts_with('P');
        for key in &keys {
            for klen_fix in [None, Some(-1i64), Some(5)] {
                for cnt in [-1i64, 0, 1, 3] {
                    for m in [0usize, 3, 8] {
                        for addr in -1..=(m as i64 + 1) {
                            for (ai, ans) in answers.iter().enumerate() {
                                n += 1;
                                if n % args.shard.1 != args.shard.0 {
                                    continue;
                                }
                                if !args.thorough && (klen_fix.is_some() || cnt == -1) && ai % 7 != 0 {
                                    continue;
                                }
                                let mut st = vec![40, 41];
                                if opn.ends_with("EX") {
                                    st.extend([5, 6, 7, 8]);
                                }
                                st.extend(key);
                                st.push(klen_fix.unwrap_or(key.len() as i64));
                                st.push(cnt);
                                st.push(addr);
                                let vm0 = Snap { st, mem: (0..m as i64).map(|i| 50 + i).collect(), ..Default::default() };
                                let mut cfg = std_cfg(vec![op], vm0);
                                // the view that must be asked answers with the scripted values, the other
                                // one with something else entirely
                                let good = Mode::Scripted(ans.clone());
                                let other = Mode::Scripted(vec![vec![66, 66, 66]]);
                                cfg.pre = view("pre", if is_post { other.clone() } else { good.clone() });
                                cfg.post = view("post", if is_post { good } else { other });
                                one(&mut b, format!("sr/{opn}/{}/{:?}/{cnt}/{m}/{addr}/{ai}", key.len(), klen_fix), cfg);
                            }
                        }
                    }
                }
            }
        }
        // state errors
        for addr in [0i64, 2] {
            let mut st = vec![40];
            if opn.ends_with("EX") {
                st.extend([5, 6, 7, 8]);
            }
            st.extend([9, 1, 2, addr]);
            let mut cfg = std_cfg(vec![op], Snap { st, mem: vec![1; 8], ..Default::default() });
            cfg.pre = view("pre", Mode::Fail);
            cfg.post = view("post", Mode::Fail);
            one(&mut b, format!("sr/{opn}/fail/{addr}"), cfg);
        }
    }
    // extreme operands: addresses / counts at the i64 extremes, with and without returned values
    for opn in ["KRNG", "KREX", "PKRNG", "PKREX"] {
        for addr in [i64::MAX, i64::MAX - 1, i64::MIN, 7, 8] {
            for cnt in [i64::MAX, i64::MIN, 0, 2] {
                for ans in [vec![], vec![vec![1i64], vec![2, 3]]] {
                    n += 1;
                    if n % args.shard.1 != args.shard.0 {
                        continue;
                    }
                    let mut st = vec![40];
                    if opn.ends_with("EX") {
                        st.extend([5, 6, 7, 8]);
                    }
                    st.extend([9, 1, cnt, addr]);
                    let mut cfg = std_cfg(vec![ops::by_name(opn).unwrap()], Snap { st, mem: vec![3; 8], ..Default::default() });
                    cfg.pre = view("pre", Mode::Scripted(ans.clone()));
                    cfg.post = view("post", Mode::Scripted(ans.clone()));
                    one(&mut b, format!("sr/extreme/{opn}/{addr}/{cnt}/{}", ans.len()), cfg);
                }
            }
        }
    }
    // random requests at larger sizes through the faithful map state
    let count = if args.thorough { 60000 } else { 2500 };
    for i in 0..count {
        n += 1;
        if n % args.shard.1 != args.shard.0 {
            continue;
        }
        let opn = ["KRNG", "KREX", "PKRNG", "PKREX"][rng.gen_range(0..4)];
        let m = rng.gen_range(0..200usize);
        let klen = rng.gen_range(0..33usize);
        let key: Vec<i64> = (0..klen).map(|_| rw(&mut rng)).collect();
        let nvals = rng.gen_range(0..12usize);
        let ans: Vec<Vec<i64>> = (0..nvals).map(|_| (0..rng.gen_range(0..20)).map(|_| rng.gen_range(0..99)).collect()).collect();
        let nb = rng.gen_range(0..4);
        let mut st: Vec<i64> = rwords(&mut rng, nb);
        if opn.ends_with("EX") {
            let a = rng.gen_range(0..3) * 1000;
            st.extend([a, a + 1, a + 2, a + 3]);
        }
        st.extend(&key);
        st.push(plen(&mut rng, klen));
        st.push(match rng.gen_range(0..10) { 0 => -1, 1 => i64::MAX, _ => rng.gen_range(0..70) });
        st.push(match rng.gen_range(0..10) { 0 => -1, 1 => m as i64, _ => rng.gen_range(0..(m as i64 + 1)) });
        let mut cfg = std_cfg(vec![ops::by_name(opn).unwrap()], Snap { st, mem: rwords(&mut rng, m), ..Default::default() });
        let is_post = opn.starts_with('P');
        let good = Mode::Scripted(ans);
        let other = Mode::Scripted(vec![vec![1], vec![2]]);
        cfg.pre = view("pre", if is_post { other.clone() } else { good.clone() });
        cfg.post = view("post", if is_post { good } else { other });
        one(&mut b, format!("sr/rand/{i}"), cfg);
    }
    b.finish(json!({"driver": "stateread"}))
}
