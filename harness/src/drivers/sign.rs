//! C19: contract signatures with real secp256k1 keys.  For seeded keys and random contracts:
//! sign / recover / verify under predicate permutations, every kind of tampering (salt bit,
//! node address bit, edge_start, edge, added / removed predicate, signature byte, recovery id),
//! the word encodings of keys and signatures, and the VM's RecoverSecp256k1 on those words.
//! Each case is one event for spec/trace/TraceSign.tla (Signing.tla: what must be recovered).

use super::Batcher;
use crate::jv::{ji, js, J};
use crate::obs::Snap;
use crate::ops;
use crate::run::{run_traced, Outcome, RunCfg};
use crate::Args;
use essential_sign::secp256k1::{PublicKey, Secp256k1, SecretKey};
use essential_types::{
    contract::{Contract, SignedContract},
    predicate::{Node, Predicate},
    ContentAddress, Signature,
};
use rand::rngs::SmallRng;
use rand::seq::SliceRandom;
use rand::{Rng, SeedableRng};
use serde_json::json;

fn jb(bs: &[u8]) -> J {
    J::A(bs.iter().map(|b| J::I(*b as i64)).collect())
}

fn rand_pred(rng: &mut SmallRng) -> Predicate {
    let nn = rng.gen_range(1..4);
    let ne = rng.gen_range(0..4);
    Predicate {
        nodes: (0..nn).map(|_| Node { edge_start: if rng.gen_bool(0.3) { u16::MAX } else { rng.gen_range(0..ne + 1) as u16 }, program_address: ContentAddress(rng.gen()) }).collect(),
        edges: (0..ne).map(|_| rng.gen_range(0..nn) as u16).collect(),
    }
}

/// "signer" | "other" | "error" | "panic"
fn classify(signed: &SignedContract, pk: &PublicKey) -> (&'static str, bool, bool) {
    let rec = std::panic::catch_unwind(|| essential_sign::contract::recover(signed));
    let ver = std::panic::catch_unwind(|| essential_sign::contract::verify(signed).is_ok()).unwrap_or(false);
    let chk = std::panic::catch_unwind(|| essential_check::predicate::check_signed_contract(signed).is_ok()).unwrap_or(false);
    let k = match rec {
        Err(_) => "panic",
        Ok(Err(_)) => "error",
        Ok(Ok(k)) if &k == pk => "signer",
        Ok(Ok(_)) => "other",
    };
    (k, ver, chk)
}

pub fn main(args: &Args) -> i32 {
    let mut b = Batcher::new(&args.out, "sign", 5000);
    let mut rng = SmallRng::seed_from_u64(args.seed ^ 0xC19);
    let secp = Secp256k1::new();
    let count = if args.thorough { 2500 } else { 60 };
    for i in 0..count {
        let mut skb = [0u8; 32];
        rng.fill(&mut skb);
        skb[0] |= 1;
        let sk = SecretKey::from_slice(&skb).unwrap();
        let pk = PublicKey::from_secret_key(&secp, &sk);
        let npred = rng.gen_range(0..4);
        let contract = Contract { predicates: (0..npred).map(|_| rand_pred(&mut rng)).collect(), salt: rng.gen() };
        let signed = essential_sign::contract::sign(contract.clone(), &sk);
        let mut cases: Vec<(String, SignedContract, bool)> = vec![("none".into(), signed.clone(), true)];
        // permutations keep the content
        for p in 0..3 {
            let mut c = signed.clone();
            c.contract.predicates.shuffle(&mut rng);
            cases.push((format!("permute{p}"), c, true));
        }
        // tampering with the content
        for bit in [0usize, 7, 100, 255] {
            let mut c = signed.clone();
            c.contract.salt[bit / 8] ^= 1 << (bit % 8);
            cases.push((format!("salt_bit{bit}"), c, false));
        }
        if npred > 0 {
            let k = rng.gen_range(0..npred);
            let mut c = signed.clone();
            c.contract.predicates[k].nodes[0].program_address.0[rng.gen_range(0..32)] ^= 0x20;
            cases.push(("node_addr".into(), c, false));
            let mut c = signed.clone();
            c.contract.predicates[k].nodes[0].edge_start ^= 1;
            cases.push(("edge_start".into(), c, false));
            let mut c = signed.clone();
            c.contract.predicates[k].edges.push(0);
            cases.push(("edge_added".into(), c, false));
            let mut c = signed.clone();
            c.contract.predicates.remove(k);
            cases.push(("pred_removed".into(), c, false));
        }
        {
            let mut c = signed.clone();
            c.contract.predicates.push(rand_pred(&mut rng));
            cases.push(("pred_added".into(), c, false));
        }
        // tampering with the signature
        for byte in [0usize, 31, 32, 63] {
            let mut c = signed.clone();
            c.signature.0[byte] ^= 1 << rng.gen_range(0..8);
            cases.push((format!("sig_byte{byte}"), c, false));
        }
        for rid in [0u8, 1, 2, 3, 4, 5, 27, 255] {
            if rid == signed.signature.1 {
                continue;
            }
            let mut c = signed.clone();
            c.signature.1 = rid;
            cases.push((format!("recid{rid}"), c, false));
        }
        // another signer
        {
            let mut sk2b = skb;
            sk2b[31] ^= 1;
            let sk2 = SecretKey::from_slice(&sk2b).unwrap();
            cases.push(("other_signer".into(), essential_sign::contract::sign(contract.clone(), &sk2), false));
        }
        for (kind, sc, same_content) in cases {
            let (k, ver, chk) = classify(&sc, &pk);
            let wellformed_id = sc.signature.1 <= 3;
            let ev = J::O(vec![
                ("e", js("case")),
                ("kind", js(&kind)),
                ("same_content", J::B(same_content)),
                ("recid_wellformed", J::B(wellformed_id)),
                ("recovered", js(k)),
                ("verify", J::B(ver)),
                ("check_signed", J::B(chk)),
                ("npred", ji(sc.contract.predicates.len())),
            ]);
            b.count(&format!("{}:{k}", kind.trim_end_matches(char::is_numeric)), 1);
            b.push_run(&format!("sign/{i}/{kind}"), vec![ev], json!({"i": i, "kind": kind}));
        }
        // encodings and the VM op
        {
            let digest = essential_hash::content_addr(&contract).0;
            let msg = essential_sign::secp256k1::Message::from_digest(digest);
            let rsig = secp.sign_ecdsa_recoverable(&msg, &sk);
            let sig_words = essential_sign::encode::signature(&rsig);
            let key_words = essential_sign::encode::public_key(&pk);
            let (rid, compact) = rsig.serialize_compact();
            let mut st: Vec<i64> = vec![5];
            st.extend(essential_types::convert::word_4_from_u8_32(digest));
            st.extend(sig_words);
            let mut cfg = RunCfg::simple(vec![ops::by_name("RSECP").unwrap()]);
            cfg.vm0 = Snap { st, ..Default::default() };
            let out = run_traced(&cfg);
            let mut want = vec![5];
            want.extend(key_words);
            let vm_ok = matches!(out.outcome, Outcome::Ok(_)) && out.fin.st == want;
            let sig_types = Signature(compact, i32::from(rid) as u8);
            let ev = J::O(vec![
                ("e", js("enc")),
                ("key33", jb(&pk.serialize())),
                ("key_words", J::A(key_words.iter().map(|w| jb(&w.to_be_bytes())).collect())),
                ("key_bytes40", jb(&essential_sign::encode::public_key_as_bytes(&pk))),
                ("sig64", jb(&compact)),
                ("rid", ji(i32::from(rid) as usize)),
                ("sig_words", J::A(sig_words.iter().map(|w| jb(&w.to_be_bytes())).collect())),
                ("sig_bytes72", jb(&essential_sign::encode::signature_as_bytes(&rsig))),
                ("vm_recovers_signer", J::B(vm_ok)),
                ("sign_hash_same", J::B(essential_sign::sign_hash(digest, &sk) == sig_types && signed.signature == sig_types)),
                ("verify_message", J::B(essential_sign::verify_message(&msg, &compact, &pk).is_ok())),
            ]);
            b.push_run(&format!("sign/{i}/enc"), vec![ev], json!({"i": i}));
        }
    }
    // arbitrary 65-byte strings: a result or an error, never a panic
    let n = if args.thorough { 100000 } else { 3000 };
    let mut panics = 0;
    let mut oks = 0;
    for _ in 0..n {
        let mut s = [0u8; 64];
        rng.fill(&mut s[..]);
        let sig = Signature(s, rng.gen());
        let h: [u8; 32] = rng.gen();
        match std::panic::catch_unwind(|| (essential_sign::recover_hash(h, &sig).is_ok(), essential_sign::verify_hash(h, &sig).is_ok())) {
            Err(_) => panics += 1,
            Ok((a, v)) => {
                if a != v {
                    panics += 1;
                }
                oks += a as u64;
            }
        }
    }
    b.push_run("sign/random65", vec![J::O(vec![("e", js("random")), ("n", ji(n)), ("panics_or_disagreements", ji(panics)), ("recovered", ji(oks as usize))])], json!({"n": n}));
    b.finish(json!({"driver": "sign"}))
}
