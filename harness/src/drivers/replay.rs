//! `vh replay --in <replay.json> --out <dir>`: re-executes the single case of a replay file on the
//! current code and writes its events as a one-run batch (validated by the runner with the trace
//! specification named in the file).

use super::Batcher;
use crate::obs::{RepSlot, Snap};
use crate::ops;
use crate::run::{emit_run, run_traced, Cost, How};
use crate::Args;
use serde_json::Value;

fn words(v: &Value) -> Vec<i64> {
    v.as_array().map(|a| a.iter().filter_map(|x| x.as_i64()).collect()).unwrap_or_default()
}

pub fn main(args: &Args) -> i32 {
    let path = args.input.clone().expect("--in <replay.json>");
    let rp: Value = serde_json::from_str(&std::fs::read_to_string(&path).expect("read replay")).expect("json");
    let spec = rp["spec"].as_str().unwrap_or("");
    let case = &rp["case"];
    let mut b = Batcher::new(&args.out, "replay", 1_000_000);
    if spec.starts_with("TraceVm") {
        let prog: Vec<essential_asm::Op> = case["prog"].as_array().unwrap().iter().filter_map(ops::op_from_raw).collect();
        let vm = &case["vm"];
        let vm0 = Snap {
            pc: vm["pc"].as_u64().unwrap_or(0) as usize,
            st: words(&vm["st"]),
            mem: words(&vm["mem"]),
            pm: vm["pm"].as_array().map(|a| a.iter().map(words).collect()).unwrap_or_default(),
            rep: vm["rep"].as_array().map(|a| a.iter().map(|r| RepSlot { c: r["c"].as_i64().unwrap(), up: r["up"].as_bool().unwrap(), lim: r["lim"].as_i64().unwrap(), ret: r["ret"].as_u64().unwrap() as usize }).collect()).unwrap_or_default(),
            halt: false,
        };
        let mut cfg = super::vmops::std_cfg(prog, vm0);
        cfg.limit = case["limit"].as_u64().unwrap_or(u64::MAX);
        cfg.cost = Cost::uniform(case["cost_default"].as_u64().unwrap_or(1));
        cfg.how = match case["how"].as_str().unwrap_or("Ops") {
            "EvalOps" => How::EvalOps,
            "ExecOps" => How::ExecOps,
            "BytecodeOwned" => How::BytecodeOwned,
            "BytecodeBorrowed" => How::BytecodeBorrowed,
            _ => How::Ops,
        };
        cfg.max_breadth = 5000;
        let out = run_traced(&cfg);
        println!("outcome: {:?}", out.outcome);
        let em = emit_run(&cfg, &out, "replay");
        b.push_run("replay", em.events, super::vmops::raw_cfg(&cfg));
    } else if spec.starts_with("TraceChecker") {
        let c = super::checker::case_from_raw(case);
        let r = super::checker::emit(&mut b, "replay", &c);
        println!("observed: {:?}", r.obs);
    } else {
        eprintln!("replay: re-execution is not implemented for {spec}; the recorded events are re-validated instead");
        return 3;
    }
    b.finish(serde_json::json!({"driver": "replay"}))
}
