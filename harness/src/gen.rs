//! Program generators shared by the VM drivers.

use crate::ops::{self, push};
use essential_asm::Op;
use rand::rngs::SmallRng;
use rand::Rng;

pub const BOUNDARY: [i64; 10] = [i64::MIN, i64::MIN + 1, -1, 0, 1, 2, 3, 4096, i64::MAX - 1, i64::MAX];

fn by(n: &str) -> Op {
    ops::by_name(n).unwrap()
}

pub fn small(rng: &mut SmallRng) -> i64 {
    match rng.gen_range(0..20) {
        0 => i64::MAX,
        1 => i64::MIN,
        2 => -1,
        3 => rng.gen_range(-5..0),
        _ => rng.gen_range(0..6),
    }
}

/// (name, words consumed, words produced) for ops with a fixed stack effect.
const FIXED: &[(&str, usize, usize)] = &[
    ("POP", 1, 0), ("DUP", 1, 2), ("SWAP", 2, 2), ("SEL", 3, 1),
    ("EQ", 2, 1), ("GT", 2, 1), ("LT", 2, 1), ("GTE", 2, 1), ("LTE", 2, 1), ("AND", 2, 1), ("OR", 2, 1), ("NOT", 1, 1),
    ("BAND", 2, 1), ("BOR", 2, 1), ("ADD", 2, 1), ("SUB", 2, 1), ("MUL", 2, 1), ("DIV", 2, 1), ("MOD", 2, 1),
    ("SHL", 2, 1), ("SHR", 2, 1), ("SHRI", 2, 1), ("THIS", 0, 4), ("THISC", 0, 4), ("DSLT", 0, 1),
];

pub struct Gen<'a> {
    pub rng: &'a mut SmallRng,
    pub out: Vec<Op>,
    /// estimated stack depth (lower bound)
    depth: usize,
    /// estimated memory size
    mem: usize,
    loop_depth: usize,
    in_compute: bool,
    pub allow_compute: bool,
    pub allow_reads: bool,
    pub allow_crypto: bool,
    pub max_breadth: i64,
}

impl<'a> Gen<'a> {
    pub fn new(rng: &'a mut SmallRng) -> Self {
        Gen { rng, out: vec![], depth: 0, mem: 0, loop_depth: 0, in_compute: false, allow_compute: true,
              allow_reads: true, allow_crypto: false, max_breadth: 4 }
    }
    fn p(&mut self, w: i64) {
        self.out.push(push(w));
        self.depth += 1;
    }
    fn o(&mut self, n: &str) {
        self.out.push(by(n));
    }
    fn ensure(&mut self, k: usize) {
        while self.depth < k {
            let w = small(self.rng);
            self.p(w);
        }
    }

    pub fn simple(&mut self) {
        let r = self.rng.gen_range(0..100);
        match r {
            0..=29 => {
                let w = small(self.rng);
                self.p(w)
            }
            30..=64 => {
                let (n, i, o) = FIXED[self.rng.gen_range(0..FIXED.len())];
                if self.rng.gen_range(0..12) != 0 {
                    self.ensure(i);
                }
                self.o(n);
                self.depth = self.depth.saturating_sub(i) + o;
            }
            65..=69 => {
                // DUPF / SWAPI / LODS with a plausible index
                self.ensure(2);
                let d = self.depth as i64;
                let ix = self.rng.gen_range(-1..d + 1);
                self.p(ix);
                let n = ["DUPF", "SWAPI", "LODS"][self.rng.gen_range(0..3)];
                self.o(n);
                self.depth = self.depth.saturating_sub(1);
                if n != "SWAPI" {
                    self.depth += 1;
                }
            }
            70..=72 => {
                self.ensure(2);
                let w = small(self.rng);
                self.p(w);
                let ix = self.rng.gen_range(0..self.depth as i64);
                self.p(ix);
                self.o("STOS");
                self.depth = self.depth.saturating_sub(2);
            }
            73..=75 => {
                let n = self.rng.gen_range(0..4);
                self.p(n);
                self.o("RES");
                self.depth += n as usize;
            }
            76..=78 => {
                let n = self.rng.gen_range(0..3usize);
                self.ensure(n);
                self.p(n as i64);
                self.o("DROP");
                self.depth = self.depth.saturating_sub(n + 1);
            }
            79..=84 => {
                let n = self.rng.gen_range(0..6);
                self.p(n);
                self.o("ALOC");
                self.mem += n as usize;
            }
            85..=88 => {
                // STO / LOD inside memory (sometimes just outside)
                let hi = self.mem as i64 + if self.rng.gen_range(0..10) == 0 { 2 } else { 0 };
                let a = if hi > 0 { self.rng.gen_range(0..hi) } else { 0 };
                if self.rng.gen_bool(0.5) {
                    let w = small(self.rng);
                    self.p(w);
                    self.p(a);
                    self.o("STO");
                    self.depth = self.depth.saturating_sub(2);
                } else {
                    self.p(a);
                    self.o("LOD");
                }
            }
            89..=91 => {
                let m = self.mem as i64;
                let a = if m > 0 { self.rng.gen_range(0..m) } else { 0 };
                let n = if m - a > 0 { self.rng.gen_range(0..(m - a).min(4) + 1) } else { 0 };
                if self.rng.gen_bool(0.5) {
                    self.p(a);
                    self.p(n);
                    self.o("LODR");
                    self.depth = self.depth.saturating_sub(2) + n as usize;
                } else {
                    let k = self.rng.gen_range(0..3usize);
                    for _ in 0..k {
                        let w = small(self.rng);
                        self.p(w);
                    }
                    self.p(k as i64);
                    self.p(a);
                    self.o("STOR");
                    self.depth = self.depth.saturating_sub(k + 2);
                }
            }
            92 => {
                let n = self.rng.gen_range(0..(self.mem as i64 + 1));
                self.p(n);
                self.o("FREE");
                self.depth = self.depth.saturating_sub(1);
                self.mem = n as usize;
            }
            93..=94 if self.allow_reads => {
                // key range read into freshly allocated memory
                let cnt = self.rng.gen_range(0..3i64);
                self.p(2 * cnt + 6);
                self.o("ALOC"); // leaves the address on the stack
                self.mem += (2 * cnt + 6) as usize;
                let ext = self.rng.gen_bool(0.4);
                let post = self.rng.gen_bool(0.4);
                // stack: [.., addr]; the op wants [ext?, key.., key_len, count, addr]
                if ext {
                    for i in 0..4 {
                        self.p(i);
                    }
                }
                let key = self.rng.gen_range(0..3);
                self.p(key);
                self.p(1);
                self.p(cnt);
                // bring addr to the top: it sits below (ext?4:0) + 3 words
                let below = if ext { 7 } else { 3 };
                self.p(below);
                self.o("DUPF");
                self.depth = self.depth.saturating_sub(1);
                self.depth += 1;
                self.o(match (post, ext) {
                    (false, false) => "KRNG",
                    (false, true) => "KREX",
                    (true, false) => "PKRNG",
                    (true, true) => "PKREX",
                });
                self.depth = self.depth.saturating_sub(below as usize + 1);
            }
            95 if self.in_compute => {
                let a = self.rng.gen_range(0..3);
                self.p(a);
                self.o("LODP");
            }
            96 if self.loop_depth > 0 => {
                self.o("REPC");
                self.depth += 1;
            }
            97 => {
                let s = self.rng.gen_range(-1..4);
                let i = self.rng.gen_range(-1..4);
                let n = self.rng.gen_range(-1..4);
                self.p(s);
                self.p(i);
                self.p(n);
                self.o("DATA");
                self.depth = self.depth.saturating_sub(3);
            }
            98 if self.allow_crypto => {
                let nb = self.rng.gen_range(0..20usize);
                for _ in 0..nb.div_ceil(8) {
                    let w = self.rng.gen();
                    self.p(w);
                }
                self.p(nb as i64);
                self.o("SHA2");
                self.depth = self.depth.saturating_sub(nb.div_ceil(8) + 1) + 4;
            }
            _ => {
                let w = small(self.rng);
                self.p(w)
            }
        }
    }

    pub fn block(&mut self, budget: usize, nest: usize) {
        let mut left = budget;
        while left > 0 {
            let r = self.rng.gen_range(0..100);
            if r < 70 || nest >= 3 || left < 6 {
                self.simple();
                left -= 1;
            } else if r < 82 {
                // repeat loop
                let n = match self.rng.gen_range(0..8) {
                    0 => -1,
                    1 => 0,
                    _ => self.rng.gen_range(1..4),
                };
                self.p(n);
                let dir = match self.rng.gen_range(0..10) { 0 => 2, x => (x % 2) as i64 };
                self.p(dir);
                self.o("REP");
                self.depth = self.depth.saturating_sub(2);
                let d0 = self.depth;
                self.loop_depth += 1;
                let body = self.rng.gen_range(1..(left / 2).max(2));
                self.block(body, nest + 1);
                self.loop_depth -= 1;
                // keep the stack balanced across iterations where possible
                while self.depth > d0 {
                    self.o("POP");
                    self.depth = self.depth.saturating_sub(1);
                }
                self.o("REPE");
                left = left.saturating_sub(body + 3);
            } else if r < 90 {
                // conditional forward (sometimes backward / zero / huge) jump
                let skip = self.rng.gen_range(1..4usize);
                let dist = match self.rng.gen_range(0..14) {
                    0 => 0,
                    1 => -(self.rng.gen_range(1..4)),
                    2 => i64::MAX,
                    3 => i64::MIN,
                    _ => skip as i64 + 1,
                };
                self.p(dist);
                let c = match self.rng.gen_range(0..10) { 0 => 2, 1 => -1, x => (x % 2) as i64 };
                self.p(c);
                self.o("JMPIF");
                self.depth = self.depth.saturating_sub(2);
                let d0 = self.depth;
                for _ in 0..skip {
                    // skipped ops must not change the estimated depth
                    let w = small(self.rng);
                    self.p(w);
                    self.o("POP");
                    self.depth = d0;
                }
                left = left.saturating_sub(2 * skip + 3);
            } else if r < 96 && self.allow_compute && !self.in_compute && self.loop_depth == 0 {
                left = self.compute_block(left, nest);
            } else if r < 98 {
                let c = self.rng.gen_range(0..3);
                self.p(c);
                let which = if self.rng.gen_bool(0.5) { "HLTIF" } else { "PNCIF" };
                self.o(which);
                self.depth = self.depth.saturating_sub(1);
                left -= 1;
            } else {
                self.simple();
                left -= 1;
            }
        }
    }

    /// A few plain ops, then a Compute block, then more code.
    pub fn p_compute_first(&mut self, len: usize) {
        for _ in 0..self.rng.gen_range(0..5) {
            self.simple();
        }
        let left = self.compute_block(len, 0);
        self.block(left.min(len / 2), 0);
    }

    fn compute_block(&mut self, left: usize, nest: usize) -> usize {
        let mut left = left;
        {
            {
                let b = match self.rng.gen_range(0..10) {
                    0 => 0,
                    1 => -1,
                    _ => self.rng.gen_range(1..self.max_breadth + 1),
                };
                self.p(b);
                self.o("COM");
                self.depth = self.depth.saturating_sub(1);
                let saved = (self.depth, self.mem);
                self.depth += 1; // the index
                self.mem = 0;
                self.in_compute = true;
                let body = self.rng.gen_range(1..(left / 2).max(2));
                self.block(body, nest + 1);
                self.in_compute = false;
                if self.rng.gen_range(0..10) != 0 {
                    self.o("COME");
                }
                self.depth = saved.0;
                self.mem = saved.1; // unknown really; lower bound
                left = left.saturating_sub(body + 3);
            }
        }
        left
    }
}

/// A random, mostly well-formed program of roughly `len` ops.
pub fn random_program(rng: &mut SmallRng, len: usize, compute: bool, max_breadth: i64) -> Vec<Op> {
    let mut g = Gen::new(rng);
    g.allow_compute = compute;
    g.max_breadth = max_breadth;
    g.block(len, 0);
    g.out
}

/// Alphabet for bounded-exhaustive short programs: every plain op and PUSH of each boundary value.
pub fn alphabet(reduced: bool) -> Vec<Op> {
    let mut v = ops::all_plain();
    if reduced {
        for w in [i64::MIN, -1, 0, 1, 2, i64::MAX] {
            v.push(push(w));
        }
    } else {
        for w in BOUNDARY {
            v.push(push(w));
        }
    }
    v
}
