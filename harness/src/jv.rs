//! JSON event trees with 64-bit words, and the compression map phi (DESIGN.md 4.1).
//!
//! TLC's integers are 32-bit and its Json module silently truncates anything larger, so
//! every word is mapped into the compressed instance `WordMax = 2^29 - 1`:
//!   |v| <= 2^27                      -> v
//!   v >= i64::MAX - 2^27             -> WORD_MAX_C - (i64::MAX - v)
//!   v <= i64::MIN + 2^27             -> WORD_MIN_C + (v - i64::MIN)
//!   any other value (an "atom")      -> an order-preserving rank inside the free band
//!                                       (2^27, 2^29 - 2^27) resp. its negative mirror,
//!                                       ranks assigned per batch over all words of the batch.
//! phi is an order embedding on every batch, so it commutes with comparisons, equality and every
//! use of a word as index / length / count; arithmetic is only emitted on the guarded domain.

use std::collections::BTreeSet;
use std::io::Write;

pub const SMALL: i64 = 1 << 27;
pub const WORD_MAX_C: i64 = (1 << 29) - 1;
pub const WORD_MIN_C: i64 = -WORD_MAX_C - 1;
pub const GAS_SMALL: u64 = 1 << 28;
pub const GAS_MAX_C: u64 = (1 << 30) - 1;

#[derive(Clone, Debug, PartialEq)]
pub enum J {
    B(bool),
    /// Plain integer that must already be small (indices, counts, lengths).
    I(i64),
    /// A VM word, compressed on output.
    W(i64),
    /// A gas amount, compressed on output.
    G(u64),
    S(String),
    A(Vec<J>),
    O(Vec<(&'static str, J)>),
}

pub fn jw(ws: &[i64]) -> J {
    J::A(ws.iter().map(|w| J::W(*w)).collect())
}
pub fn jww(wss: &[Vec<i64>]) -> J {
    J::A(wss.iter().map(|w| jw(w)).collect())
}
pub fn js(s: &str) -> J {
    J::S(s.to_string())
}
pub fn ji(i: usize) -> J {
    J::I(i as i64)
}

/// Where a word lives.
#[derive(Clone, Copy, Debug, PartialEq, Eq)]
pub enum Region {
    Small,
    NearMax,
    NearMin,
    Mid,
}

pub fn region(v: i64) -> Region {
    if (-SMALL..=SMALL).contains(&v) {
        Region::Small
    } else if v >= i64::MAX - SMALL {
        Region::NearMax
    } else if v <= i64::MIN + SMALL {
        Region::NearMin
    } else {
        Region::Mid
    }
}

/// phi on the non-atom part of the domain.
pub fn phi_plain(v: i64) -> Option<i64> {
    match region(v) {
        Region::Small => Some(v),
        Region::NearMax => Some(WORD_MAX_C - (i64::MAX - v)),
        Region::NearMin => Some(WORD_MIN_C + (v - i64::MIN)),
        Region::Mid => None,
    }
}

pub fn phi_gas(g: u64) -> Option<u64> {
    if g < GAS_SMALL {
        Some(g)
    } else if g >= u64::MAX - GAS_SMALL {
        Some(GAS_MAX_C - (u64::MAX - g))
    } else {
        None
    }
}

/// Per-batch atom table.
pub struct Phi {
    pos: Vec<i64>,
    neg: Vec<i64>,
}

impl Phi {
    pub fn build(events: &[J]) -> Phi {
        let mut mids = BTreeSet::new();
        fn walk(j: &J, mids: &mut BTreeSet<i64>) {
            match j {
                J::W(v) => {
                    if region(*v) == Region::Mid {
                        mids.insert(*v);
                    }
                }
                J::A(xs) => xs.iter().for_each(|x| walk(x, mids)),
                J::O(kv) => kv.iter().for_each(|(_, x)| walk(x, mids)),
                _ => {}
            }
        }
        for e in events {
            walk(e, &mut mids);
        }
        let pos: Vec<i64> = mids.iter().copied().filter(|v| *v > 0).collect();
        let neg: Vec<i64> = mids.iter().copied().filter(|v| *v < 0).collect();
        assert!(pos.len() < (1 << 28) && neg.len() < (1 << 28));
        Phi { pos, neg }
    }

    pub fn map(&self, v: i64) -> i64 {
        if let Some(p) = phi_plain(v) {
            return p;
        }
        if v > 0 {
            let r = self.pos.binary_search(&v).expect("atom not in table") as i64;
            SMALL + 1 + r
        } else {
            // neg is ascending: the most negative first
            let r = self.neg.binary_search(&v).expect("atom not in table") as i64;
            -SMALL - (self.neg.len() as i64 - r)
        }
    }
}

fn write_j(out: &mut Vec<u8>, j: &J, phi: &Phi) {
    match j {
        J::B(b) => out.extend_from_slice(if *b { b"true" } else { b"false" }),
        J::I(i) => {
            assert!(i.abs() < (1 << 30), "plain integer {i} too large for TLC");
            out.extend_from_slice(i.to_string().as_bytes())
        }
        J::W(v) => out.extend_from_slice(phi.map(*v).to_string().as_bytes()),
        J::G(g) => {
            let c = phi_gas(*g).unwrap_or_else(|| panic!("gas {g} not representable"));
            out.extend_from_slice(c.to_string().as_bytes())
        }
        J::S(s) => {
            out.push(b'"');
            for ch in s.bytes() {
                match ch {
                    b'"' => out.extend_from_slice(b"\\\""),
                    b'\\' => out.extend_from_slice(b"\\\\"),
                    b'\n' => out.extend_from_slice(b"\\n"),
                    c if c < 0x20 => out.extend_from_slice(b"?"),
                    c => out.push(c),
                }
            }
            out.push(b'"');
        }
        J::A(xs) => {
            out.push(b'[');
            for (i, x) in xs.iter().enumerate() {
                if i > 0 {
                    out.push(b',');
                }
                write_j(out, x, phi);
            }
            out.push(b']');
        }
        J::O(kv) => {
            out.push(b'{');
            for (i, (k, x)) in kv.iter().enumerate() {
                if i > 0 {
                    out.push(b',');
                }
                out.push(b'"');
                out.extend_from_slice(k.as_bytes());
                out.extend_from_slice(b"\":");
                write_j(out, x, phi);
            }
            out.push(b'}');
        }
    }
}

/// Write a batch of events as NDJSON (one atom table per batch).
pub fn write_batch(path: &str, events: &[J]) -> std::io::Result<()> {
    let phi = Phi::build(events);
    let f = std::fs::File::create(path)?;
    let mut w = std::io::BufWriter::with_capacity(1 << 20, f);
    let mut buf = Vec::with_capacity(4096);
    for e in events {
        buf.clear();
        write_j(&mut buf, e, &phi);
        buf.push(b'\n');
        w.write_all(&buf)?;
    }
    w.flush()
}

/// Raw (uncompressed) JSON for replay files: words as decimal strings are not needed there,
/// serde_json handles i64 natively.
pub fn to_raw(j: &J) -> serde_json::Value {
    use serde_json::Value as V;
    match j {
        J::B(b) => V::Bool(*b),
        J::I(i) => V::from(*i),
        J::W(i) => V::from(*i),
        J::G(g) => V::from(*g),
        J::S(s) => V::String(s.clone()),
        J::A(xs) => V::Array(xs.iter().map(to_raw).collect()),
        J::O(kv) => V::Object(kv.iter().map(|(k, v)| (k.to_string(), to_raw(v))).collect()),
    }
}
