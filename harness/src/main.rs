//! vh - the conformance harness binding /verif/spec to the code under /repo.
//!
//!   vh <driver> --out <dir> [--seed N] [--tier quick|thorough] [--shard i/n] [--in <file>]
//!
//! Drivers run the real code (path dependencies on /repo/crates/*), and write NDJSON batches
//! that TLC validates against the trace specifications, or replay TLC-generated cases.

mod cw;
mod drivers;
mod gen;
mod jv;
mod obs;
mod ops;
mod run;

use std::collections::HashMap;

pub struct Args {
    pub out: String,
    pub seed: u64,
    pub thorough: bool,
    pub shard: (u64, u64),
    pub input: Option<String>,
    pub extra: HashMap<String, String>,
}

fn main() {
    let argv: Vec<String> = std::env::args().collect();
    if argv.len() < 2 {
        eprintln!("usage: vh <driver> --out <dir> [--seed N] [--tier quick|thorough] [--shard i/n]");
        std::process::exit(2);
    }
    let driver = argv[1].clone();
    let mut args = Args { out: ".".into(), seed: 1, thorough: false, shard: (0, 1), input: None, extra: HashMap::new() };
    let mut i = 2;
    while i < argv.len() {
        let k = argv[i].as_str();
        let v = argv.get(i + 1).cloned().unwrap_or_default();
        match k {
            "--out" => args.out = v,
            "--seed" => args.seed = v.parse().expect("seed"),
            "--tier" => args.thorough = v == "thorough",
            "--shard" => {
                let (a, b) = v.split_once('/').expect("shard i/n");
                args.shard = (a.parse().unwrap(), b.parse().unwrap());
            }
            "--in" => args.input = Some(v),
            other => {
                args.extra.insert(other.trim_start_matches("--").to_string(), v);
            }
        }
        i += 2;
    }
    std::fs::create_dir_all(&args.out).expect("create out dir");
    // Panics in code under test are data; keep the default hook quiet.
    if std::env::var("VH_PANIC").is_err() {
        std::panic::set_hook(Box::new(|_| {}));
    }
    let code = drivers::dispatch(&driver, &args);
    std::process::exit(code);
}
