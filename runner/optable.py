#!/usr/bin/env python3
"""Reads /repo/crates/asm-spec/asm.yml independently of the asm-spec crate's own deserialiser and
writes the operation table as a TLA+ module:  optable.py <ModuleName> <DefName> <out.tla>"""
import sys
import yaml

def ops_of(path="/repo/crates/asm-spec/asm.yml"):
    tree = yaml.safe_load(open(path))
    out = []
    def walk(node, group):
        for name, v in node.items():
            if "opcode" in v:
                short = v.get("short") or name.upper()
                effects = []
                out.append({"group": group, "name": name, "short": short, "opcode": int(v["opcode"]),
                            "args": int(v.get("num_arg_bytes", 0)),
                            "nin": len(v.get("stack_in") or []),
                            "declared_short": bool(v.get("short"))})
            elif "group" in v:
                walk(v["group"], name)
            else:
                raise SystemExit(f"asm.yml: node {name} is neither an op nor a group")
    walk(tree, "")
    return out

def tla(module, defname, ops):
    rows = ",\n  ".join(
        f'[group |-> "{o["group"]}", name |-> "{o["name"]}", short |-> "{o["short"]}", opcode |-> {o["opcode"]}, args |-> {o["args"]}]'
        for o in ops)
    return (f"---- MODULE {module} ----\n\\* generated from crates/asm-spec/asm.yml by runner/optable.py - do not edit\n"
            f"{defname} == <<\n  {rows}\n>>\n====\n")

if __name__ == "__main__":
    module, defname, out = sys.argv[1:4]
    open(out, "w").write(tla(module, defname, ops_of()))
