"""Per-property decision procedures (DESIGN.md section 6)."""
import json
import os

import vrun
from vrun import log

LEVELS = {}  # every check is claimed at model_checking; C18's serde part is exploration (see level_note)


def _merge_samples(ctx, summary, n=4):
    for s in summary.get("samples", [])[:n]:
        if len(ctx.cov["samples"]) < 8:
            ctx.cov["samples"].append(s)


def _sharded_driver(ctx, binary, driver, shards, extra=None, timeout=3600):
    """Run a driver in `shards` processes; returns (files, merged counters, summaries)."""
    import concurrent.futures as cf
    files, counters, sums = [], {}, []

    def one(i):
        out = os.path.join(ctx.work, f"{driver}_{i}")
        return vrun.vh(binary, driver, out, ctx.seed, ctx.tier, extra=extra, shard=(i, shards), timeout=timeout)

    with cf.ThreadPoolExecutor(max_workers=shards) as ex:
        for s in ex.map(one, range(shards)):
            sums.append(s)
            files += s["files"]
            for k, v in s["counters"].items():
                counters[k] = counters.get(k, 0) + v
    return files, counters, sums


# ------------------------------------------------------------------------------------------------
def C08(ctx):
    """Stack / Pred / Alu / Memory / ParentMemory ops compute their documented results."""
    # M: operational StepOp vs the declarative Doc_* postconditions, exhaustive small scope
    ctx.mc("alu", "MC_Alu.tla", "MC_Alu.cfg", workers=4)
    ctx.mc("ops", "MC_VmOps.tla", "MC_VmOps_thorough.cfg" if ctx.thorough else "MC_VmOps.cfg", workers=8)
    ctx.mc("eqset", "MC_VmOps.tla", "MC_VmOps_eqset.cfg", workers=2)
    # T: the real VM, one op at a time, validated by TraceVm
    binary = vrun.cargo_build("dev")
    shards = 8 if ctx.thorough else 4
    files, counters, sums = _sharded_driver(ctx, binary, "vmops", shards)
    for s in sums[:2]:
        _merge_samples(ctx, s, 2)
    ctx.validate(files, "TraceVm.tla", "TraceVm.cfg", classify=_classify_vm)
    runs = sum(s["runs"] for s in sums)
    ctx.cov["evaluations"] = runs
    okops = sorted(k[3:] for k in counters if k.startswith("ok:"))
    errops = sorted(k[4:] for k in counters if k.startswith("err:"))
    ctx.cov["distinct_nontrivial"] = len(okops) + len(errops)
    ctx.cov["rule"] = ("boundary-exhaustive (op, stack<=3|4 words over {MIN,-1,0,1,2,3,MAX}, 3 machine shapes), "
                       "real-limit shapes, random structured operand layouts; counted: distinct (op, succeeded|failed) "
                       "classes observed on the real VM")
    ctx.cov["ops_succeeded"] = okops
    ctx.cov["ops_failed"] = errops
    ctx.cov["truncated_by_phi_guard"] = sum(s["truncated"] for s in sums)
    ctx.cov["panics_observed"] = counters.get("panic", 0)
    ctx.assumptions += [
        "64-bit words are mapped into TLC's 32-bit integers by the order embedding phi; arithmetic away from the "
        "overflow boundaries on values above 2^27 is not emitted (DESIGN.md 4.1)",
        "the state after a failing operation is not compared (no property constrains it)",
    ]


def _vm_program_check(ctx, modes, shards_quick=2, shards_thorough=8, profiles=("dev",), mc=True, rule=""):
    """Shared body of the VmExec-level checks: TLC model of the exec loop / gas / compute, then the
    program drivers on the real VM validated by TraceVm."""
    if mc:
        ctx.mc("exec", "MC_VmExec.tla", "MC_VmExec_thorough.cfg" if ctx.thorough else "MC_VmExec.cfg",
               workers=8)
    totals = {}
    runs = 0
    for prof in profiles:
        binary = vrun.cargo_build(prof)
        for mode in modes:
            shards = shards_thorough if ctx.thorough else shards_quick
            files, counters, sums = _sharded_driver(ctx, binary, "vmprog", shards, extra={"mode": mode})
            # keep the outputs of different profiles apart
            moved = []
            for f in files:
                g = f.replace(".ndjson", f".{prof}.ndjson")
                os.rename(f, g)
                if os.path.exists(f + ".raw"):
                    os.rename(f + ".raw", g + ".raw")
                moved.append(g)
            for s_ in sums[:1]:
                _merge_samples(ctx, s_, 2)
            ctx.validate(moved, "TraceVm.tla", "TraceVm.cfg", classify=_classify_vm)
            runs += sum(s_["runs"] for s_ in sums)
            for k, v in counters.items():
                totals[k] = totals.get(k, 0) + v
            for s_ in sums:
                for x in s_["samples"]:
                    if "DIFFERENT" in x:
                        ctx.violation(f"driver {mode}: executions that must agree differ: {str(x['DIFFERENT'])[:200]}",
                                      {"kind": "direct_comparison", "mode": mode, "case": x})
            ctx.cov.setdefault("truncated_by_phi_guard", 0)
            ctx.cov["truncated_by_phi_guard"] += sum(s_["truncated"] for s_ in sums)
    ctx.cov["evaluations"] = runs
    okops = sorted(k[6:] for k in totals if k.startswith("op_ok:"))
    errops = sorted(k[7:] for k in totals if k.startswith("op_err:"))
    ctx.cov["distinct_nontrivial"] = len(okops) + len(errops)
    ctx.cov["rule"] = rule or ("programs generated by the harness drivers " + ",".join(modes) +
                               "; counted: distinct (op, succeeded|failed) classes executed on the real VM inside these programs")
    ctx.cov["ops_succeeded"] = okops
    ctx.cov["ops_failed"] = errops
    ctx.cov["outcomes"] = {k: v for k, v in totals.items() if not k.startswith("op_")}
    ctx.cov["profiles"] = list(profiles)
    ctx.assumptions += [
        "64-bit words are mapped into TLC's 32-bit integers by the order embedding phi (DESIGN.md 4.1); a run is cut "
        "before a step on which phi does not commute with the operation",
        "the state after a failing operation is not compared",
        "a Compute of more than max_breadth children is not started by the drivers (unbounded work, finding F9)",
    ]
    return totals


def C05(ctx):
    """The VM is total and stays within its bounds: Bounds is an invariant of every validated state;
    a panic is an event no specification action accepts."""
    ctx.mc("ops", "MC_VmOps.tla", "MC_VmOps.cfg", workers=8)
    # every op sequence of <= 6 (thorough 8) ops under shrunk limits: bounds + totality of the specification
    ctx.mc("free", "MC_VmFree.tla", "MC_VmFree_thorough.cfg" if ctx.thorough else "MC_VmFree.cfg", workers=8, timeout=3000)
    _vm_program_check(ctx, ["exh", "rand"], profiles=("dev", "release"))
    # every single op on boundary operands (MIN, -1, 0, 1, MAX ...) in builds with and without overflow
    # checks: totality is first of all a per-op matter (seeded change T-C05: `MIN % -1` panics)
    single = 0
    for prof in ("dev", "release"):
        binary = vrun.cargo_build(prof)
        files, counters, sums = _sharded_driver(ctx, binary, "vmops", 8 if ctx.thorough else 4)
        moved = []
        for f in files:
            g = f.replace(".ndjson", f".{prof}.ndjson")
            os.rename(f, g)
            if os.path.exists(f + ".raw"):
                os.rename(f + ".raw", g + ".raw")
            moved.append(g)
        ctx.validate(moved, "TraceVm.tla", "TraceVm.cfg", classify=_classify_vm)
        single += sum(s_["runs"] for s_ in sums)
        ctx.cov["single_op_panics_" + prof] = counters.get("panic", 0)
    ctx.cov["single_op_runs"] = single


def C07(ctx):
    """Gas is exact, bounded by the limit, never overflows."""
    # "resume": a machine that ran out of gas is untouched by the refused op, so exec can be called
    # again and ends where the uninterrupted run ends (growth beyond the listed property)
    _vm_program_check(ctx, ["gas", "resume"], profiles=("dev", "release"))
    # bonus: TLAPS proof that the charge test keeps gas = sum of executed costs <= limit <= GasMax and
    # that a refused charge changes nothing, for ANY costs / limit / number of ops (the models check a
    # program library x limits 0..24); a failure of the proof tool is reported in the evidence only
    import re
    import shutil
    pd = os.path.join(ctx.work, "proof")
    os.makedirs(pd, exist_ok=True)
    shutil.copy(os.path.join(vrun.SPEC, "proofs", "GasProof.tla"), pd)
    rc, out = vrun.sh(["tlapm", "--threads", "8", "GasProof.tla"], timeout=600, cwd=pd)
    m = re.search(r"All (\d+) obligations? proved", out)
    ctx.cov["tlaps_proof"] = ({"theorem": "GasProof!Safety: Spec => [](gas = spent /\\ gas <= Limit /\\ gas <= GasMax); "
                                          "GasProof!Refusal: a refused charge leaves gas and spent unchanged",
                               "obligations": int(m.group(1)), "discharged": int(m.group(1)),
                               "checker_cmd": "tlapm --threads 8 spec/proofs/GasProof.tla"}
                              if m else {"status": "not re-checked in this run", "tail": out[-300:]})


def C09(ctx):
    """Control flow, repeat, evaluation."""
    ctx.mc("ctl", "MC_Ctl.tla", "MC_Ctl.cfg", workers=8)
    _vm_program_check(ctx, ["ctl"])


def C10(ctx):
    """Compute forks and joins like a sequential loop."""
    _vm_program_check(ctx, ["compute"])


def _bytecode_check(ctx, modes, invariants_note):
    ctx.mc("bytecode", "MC_Bytecode.tla", "MC_Bytecode_thorough.cfg" if ctx.thorough else "MC_Bytecode.cfg", workers=12, timeout=7200)
    binary = vrun.cargo_build("dev")
    runs = 0
    for mode in modes:
        files, counters, sums = _sharded_driver(ctx, binary, "bytecode", 8 if ctx.thorough else 4, extra={"mode": mode})
        for s_ in sums[:1]:
            _merge_samples(ctx, s_, 3)
        ctx.validate(files, "TraceBytecode.tla", "TraceBytecode.cfg", run_start=None, jobs=8)
        runs += sum(s_["runs"] for s_ in sums)
    ctx.cov["evaluations"] = runs
    ctx.cov["distinct_nontrivial"] = runs
    ctx.cov["rule"] = invariants_note
    ctx.assumptions += ["the operation table is read from /repo/crates/asm-spec/asm.yml with PyYAML, independently of the "
                        "asm-spec crate, and must equal the pinned table spec/OpTablePinned.tla"]


def _short_probe(ctx):
    """The short names declared in asm.yml must exist as `essential_asm::short::*` and denote the
    declared opcode: a tiny program naming every one of them is generated from asm.yml, compiled
    against /repo and run."""
    import optable
    import shutil
    ops_ = optable.ops_of()
    d = os.path.join(ctx.work, "shortprobe")
    os.makedirs(os.path.join(d, "src"), exist_ok=True)
    os.makedirs(os.path.join(d, ".cargo"), exist_ok=True)
    shutil.copy(os.path.join(vrun.REPO, "Cargo.lock"), os.path.join(d, "Cargo.lock"))
    open(os.path.join(d, "Cargo.toml"), "w").write(
        '[package]\nname = "shortprobe"\nversion = "0.0.0"\nedition = "2021"\n[workspace]\n'
        '[dependencies]\nessential-asm = { path = "/repo/crates/asm" }\n')
    open(os.path.join(d, ".cargo", "config.toml"), "w").write('[net]\noffline = true\n')
    lines = []
    for o in ops_:
        expr = f"short::{o['short']}(0)" if o["args"] > 0 else f"short::{o['short']}"
        lines.append(f'    {{ let op: Op = {expr}; println!("{o["short"]} {{}} {{:?}}", u8::from(op.to_opcode()), op); }}')
    open(os.path.join(d, "src", "main.rs"), "w").write(
        "#![allow(non_snake_case)]\nuse essential_asm::{short, Op, ToOpcode};\nfn main() {\n" + "\n".join(lines) + "\n}\n")
    tgt = os.path.join(vrun.HARNESS, "target", "shortprobe")
    rc, out = vrun.sh(["cargo", "run", "--offline", "--quiet", "--target-dir", tgt], timeout=900, env=vrun.cargo_env(), cwd=d)
    if rc != 0:
        missing = [l for l in out.splitlines() if "cannot find" in l or "no function" in l or "not found in" in l]
        if missing:
            ctx.violation("a short name declared in asm.yml does not exist in essential_asm::short: " + missing[0].strip(),
                          {"kind": "short_names", "compiler_output": out[-3000:]})
            return
        raise vrun.ToolError("short-name probe failed to build:\n" + out[-2000:])
    got = {}
    for l in out.splitlines():
        parts = l.split(" ", 2)
        if len(parts) == 3 and parts[1].isdigit():
            got[parts[0]] = (int(parts[1]), parts[2])
    bad = []
    for o in ops_:
        g = got.get(o["short"])
        if g is None or g[0] != o["opcode"] or o["name"] not in g[1] or o["group"] not in g[1]:
            bad.append({"short": o["short"], "declared": [o["group"], o["name"], o["opcode"]], "got": g})
    if bad:
        ctx.violation("short::* constants do not denote the operations asm.yml declares", {"kind": "short_names", "mismatches": bad[:10]})
    ctx.cov["short_names_checked"] = len(ops_)


def C13(ctx):
    """Bytecode encoding is a bijection that matches asm.yml."""
    _short_probe(ctx)
    _bytecode_check(ctx, ["codec"],
                    "all 256 opcode bytes, all single bytes, byte pairs (quick: a quarter + every pair starting with an "
                    "opcode), all op pairs, 128 bit-walking + boundary + opcode-byte-at-every-position immediates with "
                    "every truncation point, random op sequences (<=500 ops) and random / mutated byte strings; every "
                    "event is a distinct case")


def C14(ctx):
    """Mapped bytecode == parsed operation list; exec_bytecode == exec_ops."""
    _bytecode_check(ctx, ["codec"],
                    "the codec driver's byte strings and op sequences through BytecodeMapped::try_from (owned and borrowed), "
                    "ops(), op(i) for every i and i = len, ops_from, FromIterator; plus every program of the equivalence "
                    "driver executed through exec_ops, exec_bytecode(owned) and exec_bytecode(borrowed)")
    binary = vrun.cargo_build("dev")
    files, counters, sums = _sharded_driver(ctx, binary, "vmprog", 8 if ctx.thorough else 2, extra={"mode": "equiv"})
    ctx.validate(files, "TraceVm.tla", "TraceVm.cfg")
    ctx.cov["evaluations"] += sum(s_["runs"] for s_ in sums)
    ctx.cov["equiv_same"] = counters.get("equiv_same", 0)
    diff = counters.get("equiv_DIFFERENT", 0)
    if diff:
        bad = [x for s_ in sums for x in s_["samples"] if "DIFFERENT" in x]
        ctx.violation("exec_ops and exec_bytecode end in different machine states / gas / errors",
                      {"kind": "equiv", "cases": bad[:5]})


def C15(ctx):
    """Effect analysis reports exactly the effects present."""
    _bytecode_check(ctx, ["effects"],
                    "every program of <=2 ops over all 62 ops + pushes carrying each effectful opcode byte at each of the "
                    "8 immediate positions, and random programs of <=12 such ops: bytes_contains_any for all 64 masks and "
                    "analyze(); every event is a distinct program")


def _checker_check(ctx, modes, shards_quick=12, shards_thorough=14):
    binary = vrun.cargo_build("dev")
    runs = 0
    totals = {}
    for mode in modes:
        shards = shards_thorough if ctx.thorough else shards_quick
        files, counters, sums = _sharded_driver(ctx, binary, "checker", shards, extra={"mode": mode})
        for s_ in sums[:1]:
            _merge_samples(ctx, s_, 2)
        ctx.validate(files, "TraceChecker.tla", "TraceChecker.cfg", run_start=None, jobs=12)
        runs += sum(s_["runs"] for s_ in sums)
        for k, v in counters.items():
            totals[k] = totals.get(k, 0) + v
        for s_ in sums:
            for x in s_["samples"]:
                if "DIFFERENT" in x:
                    ctx.violation("results differ between permutations of one accepted solution set", {"kind": "perm", "case": x})
    ctx.cov["evaluations"] += runs
    ctx.cov["distinct_nontrivial"] += runs
    ctx.cov["outcomes"] = totals
    ctx.assumptions += [
        "node programs are evaluated by the VM specification (VmExec!Exec); what a leaf saw is observed through marker "
        "reads whose key is the leaf's whole stack and memory (DESIGN.md 4.4)",
        "failing node indices are compared exactly with the operational specification (lowest failing index of the "
        "earliest failing level without collect_all)",
    ]
    return totals


def C01(ctx):
    """Verdict equals the predicate-graph reference semantics."""
    ctx.mc("checker", "MC_Checker.tla", "MC_Checker_thorough.cfg" if ctx.thorough else "MC_Checker.cfg", workers=12, timeout=3000)
    if ctx.thorough:
        # every labelled DAG on 4 nodes (543) x post-read placements x misbehaving node x collect_all: 157 k states
        ctx.mc("checker_dag4", "MC_Checker.tla", "MC_Checker_dag4.cfg", workers=12, timeout=7200)
    _checker_check(ctx, ["exh", "dag4", "rand"])
    ctx.cov["rule"] = ("dag4: all 543 DAGs on 4 labelled nodes x post-read placements; exh: every node/edge encoding with <=3 nodes and <=2 (thorough 3) edges over ids 0..N with every "
                       "edge_start incl. the leaf marker x ~10 program variants (post-read placement, leaf kinds, failing "
                       "node) x collect_all, every 3rd case with a second solution; rand: random graphs <=12 nodes / 20 "
                       "edges with random numbering, multi-edges, dangling and cyclic variants, 1-3 solutions; each case "
                       "is a distinct (encoding, programs, config) triple")


def C03(ctx):
    """Post-state = pre-state overlaid with all mutations; deferral."""
    ctx.mc("overlay", "MC_Overlay.tla", "MC_Overlay_thorough.cfg" if ctx.thorough else "MC_Overlay.cfg", workers=12, timeout=3000)
    ctx.mc("checker", "MC_Checker.tla", "MC_Checker.cfg", workers=12, timeout=3000)
    if ctx.thorough:
        ctx.mc("checker_dag4", "MC_Checker.tla", "MC_Checker_dag4.cfg", workers=12, timeout=7200)   # DeferredIsDependents on all 4-node DAGs
    _checker_check(ctx, ["overlay", "dag4"])
    ctx.cov["rule"] = ("dag4: all 543 DAGs on 4 labelled nodes with a post-state read (of a mutated key) placed on each node "
                       "in turn - a descendant that runs too early starts without its ancestor's output and sees the "
                       "pre-state; overlay: random start keys of length 0..2 over {MAX-1,MAX,MIN,0,1}, counts 0..4, own / external contract, "
                       "declared and computed mutations (incl. deletions) on the keys of the range, a second solution "
                       "mutating the external contract; post reads in a deferred chain, pre reads of the same range; "
                       "what every read returned is reported through the leaf's memory")


def C04(ctx):
    """A solution set is a set."""
    ctx.mc("set", "MC_Set.tla", "MC_Set_thorough.cfg" if ctx.thorough else "MC_Set.cfg", workers=12, timeout=3000)
    totals = _checker_check(ctx, ["perm"], shards_quick=4)
    ctx.cov["perm_same"] = totals.get("perm_same", 0)
    ctx.cov["rule"] = ("random sets of 1-3 solutions over 2 contracts with declared and computed mutations on 2 keys and a "
                       "post-reading reporter, each in up to 4 orders: every order is validated against the specification "
                       "and the orders are compared with each other (content address, check_set verdict, two-pass verdict, "
                       "gas, computed mutations per solution)")


def C16(ctx):
    """Validators accept exactly the documented limits; computed sets stay valid."""
    ctx.mc("validators", "MC_Validators.tla", "MC_Validators.cfg", workers=8)
    binary = vrun.cargo_build("dev")
    s_ = vrun.vh(binary, "validators", os.path.join(ctx.work, "validators"), ctx.seed, ctx.tier)
    _merge_samples(ctx, s_, 3)
    ctx.validate(s_["files"], "TraceValidators.tla", "TraceValidators.cfg", run_start=None)
    ctx.cov["evaluations"] = s_["runs"]
    ctx.cov["distinct_nontrivial"] = s_["runs"]
    # sets returned by the mutation-computing check are re-validated with check_set (field `revalid`)
    _checker_check(ctx, ["overlay"], shards_quick=4)
    ctx.cov["rule"] = ("each of the limits 100/100/10000/1000/1000/10000 (sets) and 1000/1000/100 (predicates, contracts) "
                       "at limit-1, limit, limit+1, pairwise at and above the bound with every other limit, all at the "
                       "limit, slot collisions inside a solution / across solutions / across contracts, signed contracts "
                       "(good, bit-flipped, bad recovery id, all-zero, all-0xFF signatures); every set returned by the "
                       "two-pass check in the overlay driver is re-validated with check_set")


def _codecs_wire(ctx, modes=("wire",)):
    binary = vrun.cargo_build("dev")
    runs = 0
    for mode in modes:
        files, counters, sums = _sharded_driver(ctx, binary, "codecs", 4 if ctx.thorough else 2, extra={"mode": mode})
        for s_ in sums[:1]:
            _merge_samples(ctx, s_, 2)
        ctx.validate(files, "TraceCodecs.tla", "TraceCodecs.cfg", run_start=None)
        runs += sum(s_["runs"] for s_ in sums)
    ctx.cov["evaluations"] += runs
    ctx.cov["distinct_nontrivial"] += runs
    return runs


def C06(ctx):
    """Checker and decoders are total on untrusted input."""
    ctx.mc("enc", "MC_Encodings.tla", "MC_Encodings_thorough.cfg" if ctx.thorough else "MC_Encodings.cfg", workers=8, timeout=3000)
    _codecs_wire(ctx)
    _checker_check(ctx, ["decode"], shards_quick=8)
    # byte strings through the bytecode parser / mapper
    binary = vrun.cargo_build("dev")
    files, counters, sums = _sharded_driver(ctx, binary, "bytecode", 4, extra={"mode": "codec"})
    ctx.validate(files, "TraceBytecode.tla", "TraceBytecode.cfg", run_start=None, jobs=8)
    ctx.cov["evaluations"] += sum(s_["runs"] for s_ in sums)
    # wall-clock bounded probe of finding F8b
    rc, out = vrun.sh([binary, "checker", "--out", os.path.join(ctx.work, "probe"), "--mode", "probe-f8b"], timeout=4)
    if rc == 124:
        if ctx.open_finding("F8b"):
            ctx.known_finding("F8b", ctx.open_finding("F8b")["what"])
        else:
            ctx.violation("a post-state range read with count i64::MAX over a mutated contract does not return",
                          {"kind": "hang", "case": "PKRNG key [0] count i64::MAX, own contract mutated"})
    elif rc != 0:
        ctx.violation("the probe of a huge post-state range read crashed", {"kind": "crash", "output": out[-2000:]})
    else:
        ctx.cov["f8b_probe"] = out.strip()[-200:]
    ctx.cov["rule"] = ("every word string of <=4 (thorough 5) words over {-1,0,1,2,3,5,MAX} through decode_mutation / "
                       "decode_mutations and as the memory of a data-output leaf of the real checker; valid encodings with "
                       "one perturbed length; random / truncated / mutated predicate encodings; programs that do not parse "
                       "at each graph position; key-range counts {0,5,4000,MAX,MIN,-1}; all graphs of the C01 driver are "
                       "covered there; byte strings through from_bytes / BytecodeMapped::try_from; every case is distinct")
    ctx.assumptions += ["a panic in code under test is caught (catch_unwind) and reported as an event no specification "
                        "action accepts; an allocation abort would kill the driver (tool error naming the batch)"]


def C17(ctx):
    """Content addresses are canonical, order-independent and injective up to SHA-256."""
    ctx.mc("enc", "MC_Encodings.tla", "MC_Encodings_thorough.cfg" if ctx.thorough else "MC_Encodings.cfg", workers=8, timeout=3000)
    binary = vrun.cargo_build("dev")
    out = os.path.join(ctx.work, "addr")
    s_ = vrun.vh(binary, "codecs", out, ctx.seed, ctx.tier, extra={"mode": "addr-gen"})
    r, n = vrun.tlc_generate(f"{ctx.prop}_gen", "GenPreImages.tla", "GenPreImages.cfg", os.path.join(out, "preimages.ndjson"),
                             workers=1, env={"TRACE": os.path.join(out, "values.ndjson")})
    if n == 0:
        raise vrun.ToolError("GenPreImages produced nothing:\n" + r["out"][-2000:])
    rc, o = vrun.sh([binary, "codecs", "--out", out, "--mode", "addr-check", "--in", out], timeout=600)
    if rc != 0:
        raise vrun.ToolError("addr-check failed: " + o[-2000:])
    res = json.load(open(os.path.join(out, "addr_result.json")))
    for bad in res["bad"][:10]:
        ctx.violation(f"content address of {bad.get('kind', bad.get('id'))} {bad.get('id')} is not SHA-256 of the pre-image "
                      "the specification derives (or differs between permutations / helpers)", {"kind": "addr", **bad})
    ctx.cov["replay"].append({"generator": "GenPreImages.tla", "behaviours_replayed": res["checked"]})
    ctx.cov["traces_validated_against_impl"] += res["checked"]
    ctx.cov["states"] += r["distinct"]
    ctx.cov["transitions"] += r["generated"]
    # encoded_size, decode o encode on the same value families
    runs = _codecs_wire(ctx)
    ctx.cov["evaluations"] += res["checked"]
    ctx.cov["distinct_nontrivial"] += res["checked"]
    ctx.cov["samples"].append({"oracle_evaluation": "pre-image bytes derived by TLC, hashed by the harness", "checked": res["checked"]})
    ctx.cov["rule"] = ("random predicates (<=30 nodes), solutions (words incl. the i64 extremes), contracts of 0-3 predicates "
                       "(duplicates allowed) with zero / random salt, sets of 0-3 solutions: address from the real crates vs "
                       "SHA-256 over the pre-image derived by TLC from the specification; 4 random permutations and all "
                       "helper constructors per contract / set; 200 random programs")
    ctx.assumptions += ["SHA-256 (sha2 crate) is trusted and assumed collision free; member addresses are sorted by the "
                        "harness as the specification prescribes (TLC cannot order hashes)"]


def C18(ctx):
    """Wire, text and serde codecs round-trip."""
    ctx.mc("enc", "MC_Encodings.tla", "MC_Encodings_thorough.cfg" if ctx.thorough else "MC_Encodings.cfg", workers=8, timeout=3000)
    _codecs_wire(ctx, modes=("wire", "serde"))
    ctx.cov["rule"] = ("exhaustive predicates of <=2 nodes / <=2 edges over edge_start {0,1,2,leaf}, random predicates "
                       "(<=40 nodes, out-of-range starts), sizes 999..1001, mutation lists, 8-word conversion vectors "
                       "(random, single-bit, extremes), and one value of every public type per case through serde_json, "
                       "postcard, Display/FromStr, legacy field names; every case is distinct")
    ctx.assumptions += ["serde_json / postcard internals are trusted; for derived Serialize impls the specification only "
                        "states round-trip identity (exploration), the postcard form of Solution is transcribed and compared "
                        "byte for byte"]


def C02(ctx):
    """Validation is deterministic under any thread schedule and pool size."""
    ctx.mc("sched", "MC_Sched.tla", "MC_Sched_thorough.cfg" if ctx.thorough else "MC_Sched.cfg", workers=12, timeout=3000)
    ctx.mc("exec", "MC_VmExec.tla", "MC_VmExec.cfg", workers=8)
    binary = vrun.cargo_build("release")
    totals = {}
    # checker entry point under pools 1..16 and schedule perturbations
    shards = 4 if ctx.thorough else 2
    files, counters, sums = _sharded_driver(ctx, binary, "checker", shards, extra={"mode": "sched"})
    for s_ in sums[:1]:
        _merge_samples(ctx, s_, 2)
    ctx.validate(files, "TraceChecker.tla", "TraceChecker.cfg", run_start=None, jobs=12)
    runs = sum(s_["runs"] for s_ in sums)
    for k, v in counters.items():
        totals["checker:" + k] = totals.get("checker:" + k, 0) + v
    diffs = [x for s_ in sums for x in s_["samples"] if "DIFFERENT" in x]
    # Vm::exec with Compute under the same treatment
    files, counters, sums = _sharded_driver(ctx, binary, "vmprog", shards, extra={"mode": "sched"})
    ctx.validate(files, "TraceVm.tla", "TraceVm.cfg")
    runs += sum(s_["runs"] for s_ in sums)
    for k, v in counters.items():
        if not k.startswith("op_"):
            totals["vm:" + k] = totals.get("vm:" + k, 0) + v
    diffs += [x for s_ in sums for x in s_["samples"] if "DIFFERENT" in x]
    for d in diffs[:5]:
        ctx.violation("the result depends on the thread pool size / task completion order", {"kind": "sched", "case": d})
    ctx.cov["evaluations"] = runs
    ctx.cov["distinct_nontrivial"] = totals.get("checker:sched_same", 0) + totals.get("vm:sched_same", 0) + len(diffs)
    ctx.cov["outcomes"] = totals
    ctx.cov["rule"] = ("random sets of 2-3 solutions over predicates with wide levels (2-4 roots feeding 2-3 leaves, shuffled "
                       "numbering), Compute blocks, data outputs, failing nodes; each under pools of 1,2,4,16 (thorough also "
                       "3,8) threads x {no perturbation, tasks held up in reverse index order, random hold-ups}; and Compute "
                       "programs of breadth 2-8 with halting / failing children under the same treatment; evaluations = runs, "
                       "distinct = (case) groups whose runs were compared with each other and each validated against the "
                       "deterministic specification")
    ctx.assumptions += ["rayon's scheduler is not under the harness' control: completion orders are perturbed by holding tasks "
                        "up inside their state reads, not enumerated; all interleavings are enumerated on the model only"]


def C11(ctx):
    """State-read ops pass the exact request and lay results out as documented."""
    ctx.mc("keyrange", "MC_KeyRange.tla", "MC_KeyRange.cfg", workers=12)
    binary = vrun.cargo_build("dev")
    files, counters, sums = _sharded_driver(ctx, binary, "stateread", 8 if ctx.thorough else 4)
    for s_ in sums[:1]:
        _merge_samples(ctx, s_, 3)
    ctx.validate(files, "TraceVm.tla", "TraceVm.cfg")
    runs = sum(s_["runs"] for s_ in sums)
    ctx.cov["evaluations"] = runs
    ctx.cov["distinct_nontrivial"] = runs
    ctx.cov["outcomes"] = counters
    ctx.cov["rule"] = ("4 read ops x keys of length 0..2 x right / wrong length word x counts {-1,0,1,3} x memory sizes {0,3,8} x "
                       "every address -1..m+1 x every answer of 0..3 values of 0..2 words (quick: a 1/7 slice of the invalid-"
                       "operand combinations), state errors, and random requests (keys <=32 words, <=11 values of <=19 words, "
                       "memory <=200); the view that must NOT be asked answers differently; every case is distinct")
    ctx.assumptions += ["the recorded request (view, contract, key, count) is what the harness' StateRead implementation "
                        "received on the executing thread; memory after a failing read is not compared"]


def _oracle(ctx, binary, driver, gen_mode, gen_tla, cases_file, derived_file, check_mode, result_file, what):
    """Oracle evaluation (DESIGN.md section 2): the harness chooses cases and runs the real code, TLC derives from the
    specification what must be fed to / come out of the trusted primitive, the harness compares."""
    out = os.path.join(ctx.work, driver + "_oracle")
    vrun.vh(binary, driver, out, ctx.seed, ctx.tier, extra={"mode": gen_mode})
    r, n = vrun.tlc_generate(f"{ctx.prop}_{driver}_gen", gen_tla, gen_tla.replace(".tla", ".cfg"), os.path.join(out, derived_file),
                             workers=1, env={"TRACE": os.path.join(out, cases_file)})
    if n == 0:
        raise vrun.ToolError(f"{gen_tla} produced nothing:\n" + r["out"][-2000:])
    rc, o = vrun.sh([binary, driver, "--out", out, "--mode", check_mode, "--in", out], timeout=900)
    if rc != 0:
        raise vrun.ToolError(f"{driver} {check_mode} failed: " + o[-2000:])
    res = json.load(open(os.path.join(out, result_file)))
    for bad in res["bad"][:10]:
        ctx.violation(what + f" (case {bad.get('id')}, {bad.get('op', bad.get('kind', ''))})", {"kind": "oracle", **bad})
    ctx.cov["replay"].append({"generator": gen_tla, "behaviours_replayed": res["checked"]})
    ctx.cov["traces_validated_against_impl"] += res["checked"]
    ctx.cov["states"] += r["distinct"]
    ctx.cov["transitions"] += r["generated"]
    ctx.cov["evaluations"] += res["checked"]
    ctx.cov["distinct_nontrivial"] += res["checked"]
    return res


def C12(ctx):
    """Access and crypto ops expose solution data and agree with the hash / sign crates."""
    ctx.mc("access", "MC_Access.tla", "MC_Access.cfg", workers=8)
    binary = vrun.cargo_build("dev")
    res = _oracle(ctx, binary, "crypto", "gen", "GenCrypto.tla", "cases.ndjson", "derived.ndjson", "check", "crypto_result.json",
                  "the VM's result differs from the hash / sign crates applied to the bytes the specification designates")
    ctx.cov["samples"].append({"oracle_evaluation": "TLC derives message / key / signature / pre-image bytes from Crypto.tla; "
                                                    "the harness applies sha2, ed25519-dalek, essential_sign to them", "checked": res["checked"]})
    # the access ops on the real VM, one op at a time (TraceVm)
    files, counters, sums = _sharded_driver(ctx, binary, "vmops", 2, extra={"ops": "DATA,DLEN,DSLT,THIS,THISC,PEX,REPC,SHA2,VRFYED,RSECP"})
    ctx.validate(files, "TraceVm.tla", "TraceVm.cfg")
    runs = sum(s_["runs"] for s_ in sums)
    ctx.cov["evaluations"] += runs
    ctx.cov["distinct_nontrivial"] += runs
    ctx.cov["rule"] = ("Sha256 for every byte length 0..40 with junk beyond the length, VerifyEd25519 (valid, flipped message / "
                       "signature / key bit, junk beyond the length), RecoverSecp256k1 (valid, tampered hash / signature, "
                       "recovery ids -1,4,2^31,2^40,MAX,MIN, all-zero and all-0xFF signatures), PredicateExists over random sets "
                       "(hit and one-bit miss per solution); access ops boundary-exhaustively (stacks <=3 boundary words x 3 "
                       "machine shapes, random slot/index/length triples)")
    ctx.assumptions += ["SHA-256, Ed25519 and secp256k1 are trusted (third-party crates); decided here: which bytes reach them "
                        "and how their answer is laid out"]


def C19(ctx):
    """Contract signatures bind the signer to the content."""
    ctx.mc("signing", "MC_Signing.tla", "MC_Signing_thorough.cfg" if ctx.thorough else "MC_Signing.cfg", workers=4, timeout=3000)
    ctx.mc("enc", "MC_Encodings.tla", "MC_Encodings_thorough.cfg" if ctx.thorough else "MC_Encodings.cfg", workers=8, timeout=3000)   # injectivity of the signed pre-image
    binary = vrun.cargo_build("dev")
    s_ = vrun.vh(binary, "sign", os.path.join(ctx.work, "sign"), ctx.seed, ctx.tier)
    _merge_samples(ctx, s_, 3)
    ctx.validate(s_["files"], "TraceSign.tla", "TraceSign.cfg", run_start=None)
    ctx.cov["evaluations"] = s_["runs"]
    ctx.cov["distinct_nontrivial"] = s_["runs"]
    ctx.cov["outcomes"] = s_["counters"]
    ctx.cov["rule"] = ("per seeded key and random contract (0-3 predicates): unchanged, 3 permutations, 4 salt bits, node address "
                       "bit, edge_start, added edge, removed / added predicate, 4 signature bytes, recovery ids 0..5,27,255, "
                       "another signer; word encodings of key and signature; the VM's RecoverSecp256k1 on those words; 3000 "
                       "(thorough 20000) random 65-byte signatures; every case is distinct")
    ctx.assumptions += ["unforgeability of secp256k1 ECDSA is assumed (symbolic Sign / Recover in Signing.tla)"]


def C20(ctx):
    """The lock serialises closures."""
    # quick: 3 threads x 2 locks x 2 calls (43 k states); thorough: 4 threads (2.4 M states), safety + liveness
    ctx.mc("lock", "MC_Lock.tla", "MC_Lock_thorough.cfg" if ctx.thorough else "MC_Lock.cfg", workers=8, timeout=3600)
    # the properties are not vacuous: without exclusion TLC finds overlapping closures
    r = vrun.tlc_mc("C20_broken", "MC_Lock.tla", "MC_Lock_broken.cfg", workers=4)
    ctx.cov["mc"].append({"model": "MC_Lock.tla/MC_Lock_broken.cfg (Exclusive = FALSE)", "result": r["invariant"] or "no violation",
                          "expected": "MutualExclusion violated"})
    if r["invariant"] != "MutualExclusion":
        raise vrun.ToolError("the broken lock model should violate MutualExclusion")
    # bonus: TLAPS proof that MutualExclusion holds for ANY number of threads and locks (the model
    # checker covers 3 x 2 x 2); a failure of the proof tool is reported in the evidence, the level
    # claimed does not depend on it
    import re
    import shutil
    pd = os.path.join(ctx.work, "proof")
    os.makedirs(pd, exist_ok=True)
    shutil.copy(os.path.join(vrun.SPEC, "proofs", "LockProof.tla"), pd)
    rc, out = vrun.sh(["tlapm", "--threads", "8", "-I", vrun.SPEC, "LockProof.tla"], timeout=600, cwd=pd)
    m = re.search(r"All (\d+) obligations? proved", out)
    ctx.cov["tlaps_proof"] = ({"theorem": "LockProof!Safety: Init /\\ [][Next]_vars => []MutualExclusion for arbitrary Threads, Locks, Calls",
                               "obligations": int(m.group(1)), "discharged": int(m.group(1)),
                               "checker_cmd": "tlapm --threads 8 -I spec spec/proofs/LockProof.tla"}
                              if m else {"status": "not re-checked in this run", "tail": out[-300:]})
    binary = vrun.cargo_build("release")
    runs, closures = 0, 0
    files = []
    for rep in range(3 if ctx.thorough else 2):
        s_ = vrun.vh(binary, "lock", os.path.join(ctx.work, f"lock{rep}"), ctx.seed + rep, ctx.tier)
        files += s_["files"]
        runs += s_["runs"]
        closures += s_["counters"].get("closures", 0)
        if rep == 0:
            _merge_samples(ctx, s_, 2)
    ctx.validate(files, "TraceLock.tla", "TraceLock.cfg", run_start="start")
    ctx.cov["evaluations"] = closures
    ctx.cov["distinct_nontrivial"] = runs
    ctx.cov["rule"] = ("2..16 threads x 30..2000 read-modify-write closures of varying duration (none, yield, spin, sleep, "
                       "2 ms holds) on 1-3 locks; evaluations = closures executed, distinct = thread/lock configurations")
    ctx.assumptions += ["real schedules are sampled, not enumerated: std::sync::Mutex cannot be put under a deterministic "
                        "scheduler without changing the crate's dependencies; all interleavings are enumerated on the model only",
                        "event order = a global sequence counter incremented inside the closure, i.e. under the lock"]


# ------------------------------------------------------------------------------------------------
# ./check selftest : the properties can fail and the trace specifications are not vacuous
SPEC_MUTATIONS = [
    # (name, file, old text, new text, model tla, cfg, expected invariant)
    ("as-coded index-order deferral (finding F1)", "Checker.tla",
     "Deferred(p, progs) == Closure(p, {n \\in NodeSet(p) : PostReader(progs[p.nodes[n + 1].prog])})",
     """RECURSIVE IdxOrder(_, _, _, _)
IdxOrder(p, progs, i, D) == IF i >= NumNodes(p) THEN D
  ELSE LET D1 == IF PostReader(progs[p.nodes[i + 1].prog]) THEN D \\cup {i} ELSE D
           D2 == IF i \\in D1 THEN D1 \\cup {Children(p, i)[j] : j \\in 1..Len(Children(p, i))} ELSE D1 IN
       IdxOrder(p, progs, i + 1, D2)
Deferred(p, progs) == IdxOrder(p, progs, 0, {})""", "MC_Checker.tla", "MC_Checker.cfg", "OutcomeIsReference"),
    ("dangling edges ignored (finding F2)", "Checker.tla",
     "                                   \\/ \\E i \\in 1..Len(NodeEdges(p, n).es) : NodeEdges(p, n).es[i] >= NumNodes(p)}", "}",
     "MC_Checker.tla", "MC_Checker.cfg", "OutcomeIsReference"),
    ("arithmetic shift rounds toward zero", "Words.tla",
     "ShrIIter(a, b) == IF b = 0 \\/ a = 0 \\/ a = -1 THEN a ELSE ShrIIter(a \\div 2, b - 1)",
     "ShrIIter(a, b) == IF b = 0 \\/ a = 0 THEN a ELSE ShrIIter(-((-a) \\div 2), b - 1)", "MC_Alu.tla", "MC_Alu.cfg", "AluDoc"),
    ("Drop drops one word too few", "VmOps.tla",
     "OpDrop(st) == LET s == SplitLenWords(st) IN IF s.ok THEN Ok(s.rest) ELSE Err(s.c)",
     "OpDrop(st) == LET s == SplitLenWords(st) IN IF s.ok THEN Ok(s.rest \\o (IF s.words = <<>> THEN <<>> ELSE <<s.words[1]>>)) ELSE Err(s.c)",
     "MC_VmOps.tla", "MC_VmOps.cfg", "StepMatchesDoc"),
    ("children's memories joined in reverse order", "VmExec.tla",
     "[mem |-> acc.mem \\o r.vm.mem, pc |-> Max(acc.pc, r.vm.pc),", "[mem |-> r.vm.mem \\o acc.mem, pc |-> Max(acc.pc, r.vm.pc),",
     "MC_VmExec.tla", "MC_VmExec.cfg", "Confluent"),
    ("repeat loop bound off by one", "VmOps.tla",
     "       THEN IF s.c >= SatDec(s.lim)", "       THEN IF s.c >= s.lim", "MC_Ctl.tla", "MC_Ctl.cfg", "LoopDoc"),
    ("effect scan does not skip Push immediates", "Bytecode.tla",
     "THEN ScanFrom(bytes, pos + 9, mask)", "THEN ScanFrom(bytes, pos + 1, mask)", "MC_Bytecode.tla", "MC_Bytecode.cfg", "ScanExact"),
    ("overlay ignores deletions", "Checker.tla",
     "           v == IF f.some THEN f.v\n                ELSE LET one == PreRead(pre, c, key, 1)",
     "           v == IF f.some /\\ f.v # <<>> THEN f.v\n                ELSE LET one == PreRead(pre, c, key, 1)",
     "MC_Overlay.tla", "MC_Overlay.cfg", "OverlayIsReference"),
    ("key-range pairs written as [length, address]", "VmOps.tla",
     "IF j % 2 = 1 THEN Addr((j + 1) \\div 2) ELSE Len(vals[j \\div 2])]", "IF j % 2 = 0 THEN Addr(j \\div 2) ELSE Len(vals[(j + 1) \\div 2])]",
     "MC_KeyRange.tla", "MC_KeyRange.cfg", "KeyRangeDoc"),
    ("mutation decoder accepts a key that ends the input", "Encodings.tla",
     "       IF Len(ws) <= kend THEN [ok |-> FALSE, err |-> \"WordsTooShort\"]", "       IF Len(ws) < kend THEN [ok |-> FALSE, err |-> \"WordsTooShort\"]",
     "MC_Encodings.tla", "MC_Encodings.cfg", None),
    ("validator compares with >= instead of >", "Validators.tla",
     "  ELSE IF Len(sols) > MaxSolutions THEN Rej(\"TooMany\")", "  ELSE IF Len(sols) >= MaxSolutions THEN Rej(\"TooMany\")",
     "MC_Validators.tla", "MC_Validators.cfg", "SetDoc"),
]


def selftest(ctx):
    import shutil
    import subprocess
    ok = True
    # 1. every deviation of the specification must be caught by its model
    only = os.environ.get("VERIF_SELFTEST_ONLY")
    for name, fname, old, new, tla, cfg, expected in SPEC_MUTATIONS:
        if only and only not in name and only not in tla:
            continue
        d = os.path.join(ctx.work, "mut")
        shutil.rmtree(d, ignore_errors=True)
        shutil.copytree(vrun.SPEC, d)
        shutil.copy(os.path.join(vrun.GEN, "OpTableGen.tla"), os.path.join(d, "OpTableGen.tla"))
        path = os.path.join(d, fname)
        text = open(path).read()
        if old not in text:
            print(f"SELFTEST-FAIL  {name}: text to mutate not found in {fname}")
            ok = False
            continue
        open(path, "w").write(text.replace(old, new, 1))
        cmd = vrun.tlc_cmd(tla, cfg, 8, os.path.join(ctx.work, "mutmeta"), jvm=("-Xmx8g", "-Xss512m", f"-DTLA-Library={d}"))
        rc, out = vrun.sh(cmd, timeout=1200, cwd=os.path.join(d, "mc"))
        r = vrun.parse_tlc(out)
        caught = (r["invariant"] is not None) or ("evaluat" in out and "Error" in out and not r["ok"])
        good = caught and (expected is None or r["invariant"] == expected)
        print(f"SELFTEST-{'ok  ' if good else 'FAIL'}  spec deviation '{name}' -> {tla}: "
              f"{r['invariant'] or ('evaluation error' if caught else 'NOT DETECTED')}")
        if not good:
            print("    | " + "\n    | ".join(l[:200] for l in out.splitlines() if l.strip() and not l.startswith("Progress"))[-3000:])
        ok &= good
    if only:
        return
    # 2. corrupting one recorded field makes the trace specification reject at that line
    binary = vrun.cargo_build("dev")
    cases = [
        ("vmops", {"ops": "ADD,STOR,KRNG"}, "TraceVm.tla", "TraceVm.cfg", [('"g":1,', '"g":2,'), ('"sl":', '"sl":1'), ('"class":"Stack.Empty"', '"class":"Stack.Overflow"')]),
        ("checker", {"mode": "perm"}, "TraceChecker.tla", "TraceChecker.cfg", [('"gas":', '"gas":1'), ('-99]', '-99,-99]')]),
        ("lock", {}, "TraceLock.tla", "TraceLock.cfg", [('"e":"enter"', '"e":"read"')]),
        ("bytecode", {"mode": "effects"}, "TraceBytecode.tla", "TraceBytecode.cfg", [("true", "false")]),
    ]
    for driver, extra, tla, cfg, corruptions in cases:
        s_ = vrun.vh(binary, driver, os.path.join(ctx.work, "st_" + driver), ctx.seed, "quick", extra=extra, shard=(0, 16))
        src = s_["files"][0]
        lines = open(src).read().splitlines()[:3000]
        base = os.path.join(ctx.work, f"st_{driver}_base.ndjson")
        open(base, "w").write("\n".join(lines) + "\n")
        r0 = vrun.tlc_trace(f"st_{driver}_base", tla, cfg, base)
        # (the first 3000 lines may end inside a run: only the prefix up to the corruption matters)
        for old, new in corruptions:
            idx = next((i for i, l in enumerate(lines) if old in l and i > 3), None)
            if idx is None:
                print(f"SELFTEST-FAIL  {tla}: nothing to corrupt with {old!r}")
                ok = False
                continue
            bad = list(lines)
            bad[idx] = bad[idx].replace(old, new, 1)
            f = os.path.join(ctx.work, f"st_{driver}_bad.ndjson")
            open(f, "w").write("\n".join(bad) + "\n")
            r = vrun.tlc_trace(f"st_{driver}_bad", tla, cfg, f)
            rej = r["rejected_line"]
            good = (not r["accepted"]) and rej is not None and idx + 1 - 40 <= rej <= idx + 1 + 1 and \
                   (r0["accepted"] or (r0["rejected_line"] or 0) > idx + 1)
            print(f"SELFTEST-{'ok  ' if good else 'FAIL'}  {tla}: corrupted line {idx + 1} ({old!r} -> {new!r}) -> "
                  f"{'rejected at line ' + str(rej) if rej else 'ACCEPTED'}")
            ok &= good
    if not ok:
        ctx.violation("selftest failed", {"kind": "selftest"})


def _classify_vm(ctx, info):
    """Decide whether a rejected VM run is a listed known finding."""
    return False


def replay(prop, path, seed):
    """Re-execute the single case of a replay file on the current tree and validate it again."""
    rp = json.load(open(path))
    spec = rp.get("spec", "")
    if "/" not in spec:
        log("this replay file has no trace specification to validate against:", rp.get("kind"))
        print(json.dumps({k: v for k, v in rp.items() if k != "events"}, indent=1)[:4000])
        return 2
    tla, cfg = spec.split("/")
    ctx = vrun.Ctx(prop + "_replay", "quick", seed)
    ctx.prop = prop
    binary = vrun.cargo_build("dev")
    out = os.path.join(ctx.work, "replay")
    rc, o = vrun.sh([binary, "replay", "--in", path, "--out", out], timeout=600)
    sys_out = o.strip().splitlines()
    if rc == 0:
        summary = json.load(open(sys_out[-1]))
        files = summary["files"]
        log("re-executed on the current tree:", " | ".join(sys_out[:-1]))
    else:
        # no re-execution for this kind of case: validate the recorded events
        os.makedirs(out, exist_ok=True)
        f = os.path.join(out, "recorded.ndjson")
        with open(f, "w") as fh:
            for e in rp.get("events", []):
                fh.write(json.dumps(e) + "\n")
        files = [f]
        log("validating the RECORDED events (no re-execution for this kind of case)")
    before = len(ctx.violations)
    ctx.validate(files, tla, cfg, run_start=None if "Vm" not in tla and "Lock" not in tla else ("init" if "Vm" in tla else "start"))
    if len(ctx.violations) == before:
        print("replay: the case is accepted by the specification on the current tree")
        return 0
    return 1
