"""Per-property decision procedures (DESIGN.md section 6)."""
import json
import os

import vrun
from vrun import log

LEVELS = {}


def _merge_samples(ctx, summary, n=4):
    for s in summary.get("samples", [])[:n]:
        if len(ctx.cov["samples"]) < 8:
            ctx.cov["samples"].append(s)


def _sharded_driver(ctx, binary, driver, shards, extra=None, timeout=3600):
    """Run a driver in `shards` processes; returns (files, merged counters, summaries)."""
    import concurrent.futures as cf
    files, counters, sums = [], {}, []

    def one(i):
        out = os.path.join(ctx.work, f"{driver}_{i}")
        return vrun.vh(binary, driver, out, ctx.seed, ctx.tier, extra=extra, shard=(i, shards), timeout=timeout)

    with cf.ThreadPoolExecutor(max_workers=shards) as ex:
        for s in ex.map(one, range(shards)):
            sums.append(s)
            files += s["files"]
            for k, v in s["counters"].items():
                counters[k] = counters.get(k, 0) + v
    return files, counters, sums


# ------------------------------------------------------------------------------------------------
def C08(ctx):
    """Stack / Pred / Alu / Memory / ParentMemory ops compute their documented results."""
    # M: operational StepOp vs the declarative Doc_* postconditions, exhaustive small scope
    ctx.mc("alu", "MC_Alu.tla", "MC_Alu.cfg", workers=4)
    ctx.mc("ops", "MC_VmOps.tla", "MC_VmOps_thorough.cfg" if ctx.thorough else "MC_VmOps.cfg", workers=8)
    ctx.mc("eqset", "MC_VmOps.tla", "MC_VmOps_eqset.cfg", workers=2)
    # T: the real VM, one op at a time, validated by TraceVm
    binary = vrun.cargo_build("dev")
    shards = 8 if ctx.thorough else 4
    files, counters, sums = _sharded_driver(ctx, binary, "vmops", shards)
    for s in sums[:2]:
        _merge_samples(ctx, s, 2)
    ctx.validate(files, "TraceVm.tla", "TraceVm.cfg", classify=_classify_vm)
    runs = sum(s["runs"] for s in sums)
    ctx.cov["evaluations"] = runs
    okops = sorted(k[3:] for k in counters if k.startswith("ok:"))
    errops = sorted(k[4:] for k in counters if k.startswith("err:"))
    ctx.cov["distinct_nontrivial"] = len(okops) + len(errops)
    ctx.cov["rule"] = ("boundary-exhaustive (op, stack<=3|4 words over {MIN,-1,0,1,2,3,MAX}, 3 machine shapes), "
                       "real-limit shapes, random structured operand layouts; counted: distinct (op, succeeded|failed) "
                       "classes observed on the real VM")
    ctx.cov["ops_succeeded"] = okops
    ctx.cov["ops_failed"] = errops
    ctx.cov["truncated_by_phi_guard"] = sum(s["truncated"] for s in sums)
    ctx.cov["panics_observed"] = counters.get("panic", 0)
    ctx.assumptions += [
        "64-bit words are mapped into TLC's 32-bit integers by the order embedding phi; arithmetic away from the "
        "overflow boundaries on values above 2^27 is not emitted (DESIGN.md 4.1)",
        "the state after a failing operation is not compared (no property constrains it)",
    ]


def _classify_vm(ctx, info):
    """Decide whether a rejected VM run is a listed known finding."""
    return False


def replay(prop, path, seed):
    log("replay of", path, "is not implemented for", prop)
    return 2
