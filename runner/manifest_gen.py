#!/usr/bin/env python3
"""Regenerates MANIFEST.json from the table below (kept next to the runner so that the manifest,
the checks and DESIGN.md stay in step)."""
import json, os, subprocess

HERE = os.path.dirname(os.path.dirname(os.path.abspath(__file__)))

CHECKS = {
    "C08": dict(
        level="model_checking", design="6/C08",
        text="TLC checks the operational StepOp of spec/VmOps.tla against a declarative table of asm.yml's "
             "stack_in/stack_out contracts for every stack of <=4 (thorough 5) boundary words, and the ALU against "
             "integer arithmetic for all pairs of 5-bit words; every one-op transition of the real VM over the "
             "boundary-exhaustive driver (all ops x all stacks of <=3|4 words over {MIN,-1,0,1,2,3,MAX} x 3 machine "
             "shapes, real 4096/10240 limits, random structured layouts) is then validated by TLC against the same "
             "StepOp (spec/trace/TraceVm.tla).",
        note="64-bit numeric accuracy away from the overflow boundaries is outside TLC's 32-bit integers "
             "(phi compression, DESIGN.md 4.1); machine state after a failing op is not compared.",
        technique="TLA+ spec (VmOps/Words) model-checked with TLC + TLC trace validation of per-op events recorded "
                  "from the real VM through the cfg-guarded observer hook"),
}

TRACEVM = ("TLC trace validation (spec/trace/TraceVm.tla reusing VmOps/VmExec actions) of per-op events recorded from the "
           "real VM, children of Compute included, through the cfg-guarded observer hook")
CHECKS.update({
    "C05": dict(
        level="model_checking", design="6/C05",
        text="Bounds (stack<=4096, memory<=10240, repeat<=4096, depth<=1, words in range) is a TLC invariant of the "
             "small-step exec model (all interleavings of compute children) and of every state of every validated trace; "
             "drivers: every 2-op program over all ops x 10 boundary immediates from 4-5 machine shapes (incl. stack 4095, "
             "memory 10239, inside a child), a slice (thorough: all) of 3-op programs, long random programs with loops, "
             "jumps, compute and state reads, and every single op on every stack of <=3 (thorough 4) words over "
             "{MIN,-1,0,1,2,3,MAX} from 3 machine shapes plus the real limits, all in overflow-checked (dev) and release "
             "builds; a panic is an event no specification action accepts, and a failing op must report the kind of typed "
             "error that spec/ErrKinds.tla lists for it.",
        note="absence of panics is established for the explored programs, not proved; allocation aborts would kill the "
             "driver process (reported as a tool error with the case label).",
        technique="TLA+ VmExec/VmOps model-checked with TLC + " + TRACEVM),
    "C07": dict(
        level="model_checking", design="6/C07",
        text="TLC checks GasExact, GasWithinLimit, OutOfGasBeforeEffect (action property) and Terminates (liveness under "
             "weak fairness) on the small-step exec model for a program library x cost functions x every limit 0..14|24; "
             "the gas driver runs each program of the library on the real VM once per limit 0..total+1 (cut-point "
             "enumeration) with uniform and per-op costs incl. 0 and values next to u64::MAX, plus random programs under "
             "random small limits; TraceVm checks per op that the charge is exact, within the limit, and that a refused op "
             "left the machine untouched.",
        note="gas values are compressed like words (small / next to u64::MAX); finding F9 (children metered separately) "
             "is open and reported as KNOWN-FINDING.",
        technique="TLA+ VmExec model-checked with TLC (safety + liveness) + " + TRACEVM),
    "C09": dict(
        level="model_checking", design="6/C09",
        text="MC_Ctl.tla states the documented outcomes in closed form (trip count max(n,1), counter sequences up/down, "
             "nested resume, JumpIf target/conditions, Halt/HaltIf/end of program, evaluation) and TLC checks the "
             "operational exec loop against them for all counts {MIN,-1,0,1,2,3} x directions x nestings x distances x "
             "positions; the ctl driver runs the same families (plus repeat nesting to the real 4096 limit, jumps "
             "into/out of loops, eval_ops) on the real VM and TraceVm validates pc, repeat stack and counters after every op.",
        note="the counter value seen when n<=0 is what the code shows (0 resp. n); the property only fixes the trip count.",
        technique="TLA+ closed-form control-flow properties model-checked with TLC + " + TRACEVM),
    "C10": dict(
        level="model_checking", design="6/C10",
        text="MC_VmExec.tla lets the children of a Compute interleave freely and TLC checks Confluent (every interleaving "
             "ends in the outcome of the sequential big-step reference) for children that take index-dependent paths, "
             "halt, fail, read parent memory, overflow the joined memory, nest; the compute driver runs those families "
             "(breadths MIN..7, 1000, 4096, memory exactly at / one above the limit, index push overflow, inside parent "
             "loops) on the real VM: every child's initial state, every child step and the join are validated by TraceVm.",
        note="real rayon schedules are whatever the pool produced in the run; the order-independence argument is the "
             "model-checked Confluent property plus per-child validation in index order.",
        technique="TLA+ fork/join interleaving model checked with TLC against a sequential reference + " + TRACEVM),
})

TRACEBC = ("TLC validation (spec/trace/TraceBytecode.tla) of what the real crates answer for byte strings, op sequences, "
           "opcode bytes and effect queries against spec/Bytecode.tla instantiated with the table generated from asm.yml")
CHECKS.update({
    "C13": dict(
        level="model_checking", design="6/C13",
        text="The op table is regenerated from /repo's asm.yml by an independent reader and must equal the pinned table "
             "(TLC ASSUME); TLC checks TableSane, RoundTrip, Unambiguous, PrefixRoundTrip and ErrorClasses of the "
             "parser/serialiser state machines for every byte string of <=5 (thorough 6) symbols over 11 byte classes; "
             "all 256 opcode bytes, byte pairs, all op pairs, bit-walking / boundary / opcode-carrying immediates with "
             "every truncation point and random sequences are pushed through from_bytes / to_bytes / Opcode::try_from / "
             "to_opcode of the real crates and each answer is validated by TLC.",
        note="immediates are compared as 8-byte strings against i64::to_be_bytes (std is trusted); the short names are checked "
             "by compiling and running a generated program that names every short::* constant declared in asm.yml.",
        technique="TLA+ codec state machines model-checked with TLC + " + TRACEBC),
    "C14": dict(
        level="model_checking", design="6/C14",
        text="TLC checks MappedIsParsed (same verdict and error class, same ops in order, random access, offsets) on the "
             "byte-class strings; BytecodeMapped::try_from (owned and borrowed), ops(), op(i), ops_from, FromIterator of "
             "the real crate are validated on the codec driver's inputs; every program of the equivalence driver is "
             "executed through exec_ops, exec_bytecode(Vec<u8>) and exec_bytecode(&[u8]) - each execution is validated "
             "per op by TraceVm.tla and the three final states, gas and errors are compared directly.",
        note="see C13; program families are those of C05/C07/C09/C10 (jumps, repeats, compute children re-indexing).",
        technique="TLA+ mapping model checked with TLC + TLC trace validation of both execution paths"),
    "C15": dict(
        level="model_checking", design="6/C15",
        text="TLC checks ScanExact (the byte loop with its 8-byte skip answers exactly 'some parsed op has one of the "
             "effects') for all 64 masks on every byte-class string; bytes_contains_any (64 masks) and analyze of the real "
             "crate are validated for every program of <=2 ops over the 62 ops plus pushes carrying each effectful opcode "
             "byte at each immediate position, and random longer programs.",
        note="the property is about well-formed bytecode: malformed strings are not compared.",
        technique="TLA+ scan/analysis model checked with TLC + " + TRACEBC),
})

TRACECK = ("TLC validation (spec/trace/TraceChecker.tla) of what the real two-pass checker returned and of what every "
           "reporting leaf saw, against Checker!TwoPass, which evaluates the same node programs with the VM specification")
CHECKS.update({
    "C01": dict(
        level="model_checking", design="6/C01",
        text="MC_Checker.tla: TLC checks the operational two-pass evaluation (Kahn levels, index order, caches, run-mode "
             "filtering, failure collection) against the declarative reference (each node once on its parents' outputs in "
             "ascending parent order; malformed / cyclic / dangling graphs rejected with nothing evaluated) for EVERY raw "
             "encoding with <=3 nodes, <=2|3 edges, every edge_start, every placement of post reads, one misbehaving node, "
             "both collect_all values. The checker driver runs the real check_and_compute_solution_set_two_pass on every "
             "such encoding with self-reporting programs and on random graphs (<=12 nodes, random numbering, multi-edges, "
             "cycles, dangling edges, 1-3 solutions); verdict, failing indices, gas, returned mutations and every leaf's "
             "inherited stack and memory are validated by TLC.",
        note="graphs beyond 12 nodes are not sampled; the two run modes over a caller-supplied cache are exercised through "
             "the two-pass entry point only.",
        technique="TLA+ checker model vs declarative reference model-checked with TLC + " + TRACECK),
    "C03": dict(
        level="model_checking", design="6/C03",
        text="MC_Overlay.tla: ReadOrFallback (contract shortcut, per-key loop, carry, end of key space) = RefRead for every "
             "start key of length 1..2 over {MAX-1,MAX,MIN,0,1}, counts 0..4, own / foreign contract and every pre-state / "
             "mutation set on the keys of the range; MC_Checker.tla: the deferred set is exactly the post readers and their "
             "dependents and deferred nodes see the post-state. The overlay driver runs real two-pass checks in which a "
             "data-output leaf computes part of the mutations, a deferred chain reads own / external post-state ranges and a "
             "separate leaf reads the same range from the pre-state; what each read returned is reported and validated.",
        note="values and keys are short (<=2 words); the pre-state is the harness' map (n consecutive keys).",
        technique="TLA+ overlay / deferral models checked with TLC + " + TRACECK),
    "C04": dict(
        level="model_checking", design="6/C04",
        text="MC_Set.tla: for every set of 2 (thorough 3) solutions over two contracts with declared and computed mutations "
             "on two keys and every permutation, an accepted set gives the same verdict, gas, per-solution mutations and "
             "post-state observations, and proposes one value per slot. The perm driver validates random sets in up to 4 "
             "orders against the specification and compares the orders directly (content address, check_set, verdict, gas, "
             "mutations).",
        note="sets of up to 3 solutions; MAX_SOLUTIONS-sized sets are covered for validation only (C16).",
        technique="TLA+ permutation-invariance model checked with TLC + " + TRACECK),
    "C06": dict(
        level="model_checking", design="6/C06",
        text="MC_Encodings.tla: the decoders are total state machines - every word string of <=5|6 words over the boundary "
             "alphabet has an ok / typed-error answer and what is accepted re-encodes to a prefix; truncations of predicate "
             "encodings are rejected. The same strings go through the real decode_mutation / decode_mutations and, as "
             "data-output memories, through the real checker; predicate bytes (random, truncated, mutated), unparsable "
             "programs at every graph position, absurd key-range counts, and byte strings through from_bytes / "
             "BytecodeMapped::try_from: results validated by TLC, panics caught and never accepted.",
        note="finding F8b (huge post-state read count does not return) is open; allocation aborts are not catchable in-process.",
        technique="TLA+ decoder state machines model-checked with TLC + TLC validation of the real decoders' answers"),
    "C16": dict(
        level="model_checking", design="6/C16",
        text="MC_Validators.tla: the validators in code order accept exactly the documented conditions for all sets / "
             "contracts built from a menu at, below and above every (shrunk) limit with slot collisions in and across "
             "solutions. The validators driver probes the real constants (100/100/10000/1000/1000/10000; 1000/1000/100) at "
             "limit-1/limit/limit+1, pairwise, all at once, an oversized slot / key / value at every position among three, each "
             "under four fills of the words (uniform, ascending, descending, mixed: verdicts may depend on sizes and key "
             "equality only), signed contracts with good / tampered / malformed signatures; "
             "every set returned by the two-pass check on a valid input is re-validated with check_set.",
        note="inputs are size descriptors (all the validators inspect); signature recoverability is computed with secp256k1 directly.",
        technique="TLA+ validators vs documented acceptance conditions checked with TLC + TLC validation of real verdicts"),
    "C17": dict(
        level="model_checking", design="6/C17",
        text="MC_Encodings.tla: pre-hash encodings are injective on all pairs of small predicates / mutation lists / "
             "solutions, the encoded size equals the length. Oracle evaluation: TLC derives from the specification the bytes "
             "that must be hashed for random predicates, solutions, contracts (multiset of member encodings + salt) and sets; "
             "the harness hashes them with SHA-256 and compares with the real content_addr, Address trait, "
             "from_contract / from_predicate_addrs(_slice) / from_set / from_solution_addrs(_slice) under 4 permutations each.",
        note="SHA-256 is trusted / assumed collision free; member addresses are sorted by the harness as prescribed.",
        technique="TLA+ pre-image definitions model-checked for injectivity + TLC-generated pre-images replayed against the real hash crate"),
    "C18": dict(
        level="model_checking", design="6/C18",
        text="MC_Encodings.tla: decode o encode = id for predicates and mutation lists, NodeEdges is the documented "
             "sub-range. The real Predicate::encode/decode/encoded_size/node_edges, encode/decode_mutations, word/byte "
             "conversions (big-endian, 4x8, 8x8) are validated by TLC on exhaustive small and random values; every public "
             "type is round-tripped through serde_json, postcard, Display/FromStr and the legacy field names, and the "
             "postcard bytes of Solution are compared with the specification's transcription.",
        note="serde_json / postcard internals are trusted; for derived impls the specification is thin (round-trip identity): "
             "that part is exploration-level.",
        technique="TLA+ codec round-trip properties checked with TLC + TLC validation of the real codecs' outputs"),
})

CHECKS.update({
    "C02": dict(
        level="model_checking", design="6/C02",
        text="MC_Sched.tla: node tasks of a level and of different solutions start and finish in every order, results are "
             "folded per level in index order - TLC checks that every interleaving ends in the sequential result "
             "(Confluent, CachesPrivate); MC_VmExec.tla does the same for compute children. On the real code every case "
             "of the schedule drivers (wide levels, several solutions, Compute blocks, data outputs, failures) runs under "
             "rayon pools of 1..16 threads with tasks held up inside their state reads so that they finish in reverse "
             "index order or random order; every run is validated against the deterministic specification and all runs of "
             "a case are compared (verdict, indices, gas, mutations in order, machine states).",
        note="real schedules are perturbed and sampled, not enumerated; exhaustive only on the specification.",
        technique="TLA+ interleaving models checked with TLC + TLC trace validation of runs under varied pools and forced completion orders"),
    "C11": dict(
        level="model_checking", design="6/C11",
        text="MC_KeyRange.tla: the operational key-range op against the documented contract (exact request to the right "
             "view / contract, [address, length] pairs then values back to back, nothing else changes, memory never grows, "
             "operands consumed exactly, misfits and invalid operands are errors) for 230k combinations; the stateread "
             "driver runs the 4 real ops on the same combinations and on random larger requests against scripted recording "
             "pre / post views with different contents; request, memory, stack and error are validated by TraceVm.",
        note="memory after a failing read is not compared.",
        technique="TLA+ op contract model-checked with TLC + " + TRACEVM),
    "C12": dict(
        level="model_checking", design="6/C12",
        text="MC_Access.tla: PredicateData/Len/Slots and the address ops against their documentation for all (slot, index, "
             "length) in (-1..4)^3, the byte-length rule of pop_bytes for lengths 0..17, injectivity of the PredicateExists "
             "pre-image. Oracle evaluation: for Sha256 (all lengths 0..40), VerifyEd25519, RecoverSecp256k1 and "
             "PredicateExists TLC derives from Crypto.tla the bytes that must reach the primitive; the harness applies sha2 / "
             "ed25519-dalek / essential_sign::recover_hash + encode::public_key to exactly those bytes and compares with the "
             "stack the real VM produced (incl. five zero words for well-formed unrecoverable signatures, errors for bad ids).",
        note="SHA-256, Ed25519, secp256k1 are trusted third-party primitives.",
        technique="TLA+ marshalling spec: TLC-derived primitive inputs replayed against the real VM and the hash/sign crates + " + TRACEVM),
    "C19": dict(
        level="model_checking", design="6/C19",
        text="MC_Signing.tla (symbolic Sign/Recover over the contract digest = multiset of predicates + salt): SignRecover "
             "for every order, TamperDetected, OtherSigner, MalformedIsError; MC_Encodings.tla gives injectivity of the signed "
             "pre-image. With real seeded keys: unchanged / permuted contracts recover the signer and verify; every tampering "
             "of salt, node address, edge_start, edges, predicates, signature bytes, recovery id, and another signer never "
             "recover the signer; malformed input is an error, never a panic; key / signature word layouts are Crypto.tla's "
             "and the VM's RecoverSecp256k1 returns encode::public_key on encode::signature words.",
        note="unforgeability of ECDSA is an assumption of the symbolic model.",
        technique="TLA+ symbolic signature model checked with TLC + TLC validation of real-key sign/recover/tamper outcomes"),
    "C20": dict(
        level="model_checking", design="6/C20",
        text="Lock.tla: 3 threads x 2 calls x 2 locks, all interleavings: MutualExclusion, NoLostUpdate, FinalCount, "
             "EveryCallReturns (liveness, weak fairness); the Exclusive = FALSE deviation violates MutualExclusion (non-"
             "vacuity); spec/proofs/LockProof.tla is a TLAPS proof (37 obligations) that MutualExclusion holds for any number "
             "of threads and locks. The real StdLock is driven by 2..16 threads x up to 2000 read-modify-write closures of varying "
             "duration on 1-3 locks; events sequenced inside the closure are validated by TraceLock (Enter only when free, "
             "Read of the model's value, Return of the closure's own value, final value = number of closures, all threads join); "
             "nested applies on two different locks by 1 / 4 / 16 threads are checked against their sequential meaning "
             "(TraceLock!NestedEv). Thorough: 4 threads in the model (2.4 M states), up to 64 threads on the real lock.",
        note="real schedules are sampled; exhaustive only on the model; the small-step model has one lock per thread at a time.",
        technique="TLA+ lock model checked with TLC (safety + liveness) + TLC trace validation of contended runs"),
})

NOT_YET = {
}

def main():
    props = [json.loads(l) for l in open(os.path.join(HERE, "properties.jsonl"))]
    ids = [p["id"] for p in props]
    commits = subprocess.run(["git", "-C", "/repo", "log", "--format=%h %s"], capture_output=True, text=True).stdout.splitlines()
    hook_commits = [c.split()[0] for c in commits if c.split(" ", 1)[1].startswith("verif:")]
    m = {
        "version": 1,
        "setup_cmd": "./check --setup",
        "hooks": {
            "guard": "essential_base_verif",
            "enable": "rustc --cfg essential_base_verif, set for every build of the harness by "
                      "/verif/harness/.cargo/config.toml (rustflags = [\"--cfg\",\"essential_base_verif\"]); the harness "
                      "depends on /repo/crates/* by path, so the hooks are compiled from /repo's working tree",
            "baseline_off_cmd": "cd /repo && cargo nextest run --workspace --no-fail-fast --test-threads 8 --offline || "
                                "cargo test --workspace --no-fail-fast --offline",
            "source_commits": hook_commits,
            "add_only": True,
        },
        "engines": [
            {"name": "tla-spec", "path": "spec/", "serves_properties": sorted(CHECKS),
             "kind_free_text": "explicit TLA+ specification (Words, VmOps, VmExec, ... ) with small-scope TLC models "
                               "in spec/mc and trace specifications in spec/trace"},
            {"name": "harness", "path": "harness/", "serves_properties": sorted(CHECKS),
             "kind_free_text": "Rust conformance harness (path deps on /repo/crates/*): drivers run the real code and "
                               "write NDJSON traces for TLC, or replay TLC-generated cases"},
            {"name": "runner", "path": "check", "serves_properties": sorted(CHECKS),
             "kind_free_text": "python3 orchestration: build, TLC model checking, trace validation, evidence"},
        ],
        "checks": [],
        "notes": "See DESIGN.md. known_findings.json lists open findings and fixed defects.",
        "not_applicable": [],
    }
    for pid in ids:
        if pid in CHECKS:
            c = CHECKS[pid]
            m["checks"].append({
                "property_id": pid,
                "quick_cmd": f"./check {pid} --tier quick",
                "thorough_cmd": f"./check {pid} --tier thorough",
                "evidence_file": f"evidence/{pid}.json",
                "replay_cmd_template": f"./check {pid} --replay {{path}}",
                "engine": "tla-spec",
                "level_claimed": {"category": c["level"], "text": c["text"], "design_ref": c["design"]},
                "level_note": c["note"],
                "technique": c["technique"],
            })
        else:
            m["not_applicable"].append({"property_id": pid, "reason": NOT_YET.get(
                pid, "check not built yet in this round (the specification modules for it are planned in DESIGN.md section 6); not claimed until its check exists")})
    with open(os.path.join(HERE, "MANIFEST.json"), "w") as f:
        json.dump(m, f, indent=1)

if __name__ == "__main__":
    main()
