#!/usr/bin/env python3
"""Regenerates MANIFEST.json from the table below (kept next to the runner so that the manifest,
the checks and DESIGN.md stay in step)."""
import json, os, subprocess

HERE = os.path.dirname(os.path.dirname(os.path.abspath(__file__)))

CHECKS = {
    "C08": dict(
        level="model_checking", design="6/C08",
        text="TLC checks the operational StepOp of spec/VmOps.tla against a declarative table of asm.yml's "
             "stack_in/stack_out contracts for every stack of <=4 (thorough 5) boundary words, and the ALU against "
             "integer arithmetic for all pairs of 5-bit words; every one-op transition of the real VM over the "
             "boundary-exhaustive driver (all ops x all stacks of <=3|4 words over {MIN,-1,0,1,2,3,MAX} x 3 machine "
             "shapes, real 4096/10240 limits, random structured layouts) is then validated by TLC against the same "
             "StepOp (spec/trace/TraceVm.tla).",
        note="64-bit numeric accuracy away from the overflow boundaries is outside TLC's 32-bit integers "
             "(phi compression, DESIGN.md 4.1); machine state after a failing op is not compared.",
        technique="TLA+ spec (VmOps/Words) model-checked with TLC + TLC trace validation of per-op events recorded "
                  "from the real VM through the cfg-guarded observer hook"),
}

NOT_YET = {
}

def main():
    props = [json.loads(l) for l in open(os.path.join(HERE, "properties.jsonl"))]
    ids = [p["id"] for p in props]
    commits = subprocess.run(["git", "-C", "/repo", "log", "--format=%h %s"], capture_output=True, text=True).stdout.splitlines()
    hook_commits = [c.split()[0] for c in commits if c.split(" ", 1)[1].startswith("verif:")]
    m = {
        "version": 1,
        "setup_cmd": "./check --setup",
        "hooks": {
            "guard": "essential_base_verif",
            "enable": "rustc --cfg essential_base_verif, set for every build of the harness by "
                      "/verif/harness/.cargo/config.toml (rustflags = [\"--cfg\",\"essential_base_verif\"]); the harness "
                      "depends on /repo/crates/* by path, so the hooks are compiled from /repo's working tree",
            "baseline_off_cmd": "cd /repo && cargo nextest run --workspace --no-fail-fast --test-threads 8 --offline || "
                                "cargo test --workspace --no-fail-fast --offline",
            "source_commits": hook_commits,
            "add_only": True,
        },
        "engines": [
            {"name": "tla-spec", "path": "spec/", "serves_properties": sorted(CHECKS),
             "kind_free_text": "explicit TLA+ specification (Words, VmOps, VmExec, ... ) with small-scope TLC models "
                               "in spec/mc and trace specifications in spec/trace"},
            {"name": "harness", "path": "harness/", "serves_properties": sorted(CHECKS),
             "kind_free_text": "Rust conformance harness (path deps on /repo/crates/*): drivers run the real code and "
                               "write NDJSON traces for TLC, or replay TLC-generated cases"},
            {"name": "runner", "path": "check", "serves_properties": sorted(CHECKS),
             "kind_free_text": "python3 orchestration: build, TLC model checking, trace validation, evidence"},
        ],
        "checks": [],
        "notes": "See DESIGN.md. known_findings.json lists open findings and fixed defects.",
        "not_applicable": [],
    }
    for pid in ids:
        if pid in CHECKS:
            c = CHECKS[pid]
            m["checks"].append({
                "property_id": pid,
                "quick_cmd": f"./check {pid} --tier quick",
                "thorough_cmd": f"./check {pid} --tier thorough",
                "evidence_file": f"evidence/{pid}.json",
                "replay_cmd_template": f"./check {pid} --replay {{path}}",
                "engine": "tla-spec",
                "level_claimed": {"category": c["level"], "text": c["text"], "design_ref": c["design"]},
                "level_note": c["note"],
                "technique": c["technique"],
            })
        else:
            m["not_applicable"].append({"property_id": pid, "reason": NOT_YET.get(
                pid, "check not built yet in this round (the specification modules for it are planned in DESIGN.md section 6); not claimed until its check exists")})
    with open(os.path.join(HERE, "MANIFEST.json"), "w") as f:
        json.dump(m, f, indent=1)

if __name__ == "__main__":
    main()
