#!/usr/bin/env python3
"""ingest_seed.py <worktree> <SEED subdir (e.g. SEED/a)> <seed id> <property list, comma> <check ids...>
Copies a sub-agent's seeded change into /verif/seeded/<id>, confirms it in the agent's scratch worktree
(existing suite passes with it, demonstration fails with it and passes without), then applies it to /repo,
runs the named checks and undoes it."""
import json, os, re, shutil, subprocess, sys

def main():
    wt, sub, sid, props = sys.argv[1:5]
    checks = sys.argv[5:]
    if wt == "RETEST":      # RETEST <seeded dir> - - <checks...>: only re-run checks against a kept change
        subprocess.run(["python3", "/verif/runner/seedtest.py", sub] + checks)
        return 0
    src = os.path.join(wt, sub)
    dst = f"/verif/seeded/{sid}"
    os.makedirs(dst, exist_ok=True)
    for f in ("patch.diff", "demo.rs", "notes.md"):
        shutil.copy(os.path.join(src, f), dst)
    first = open(os.path.join(src, "demo.rs")).readline()
    m_path = re.search(r"(crates/\S+\.rs)", first)
    m_crate = re.search(r"-p\s+(\S+)", first)
    m_test = re.search(r"--test\s+(\S+)", first)
    if not (m_path and m_crate and m_test):
        print(f"INGEST {sid}: cannot parse the first line of demo.rs: {first!r}")
        return 2
    r = subprocess.run(["/verif/runner/confirm_seed.sh", wt, src, m_crate.group(1), m_test.group(1), m_path.group(1)],
                       capture_output=True, text=True)
    line = [l for l in r.stdout.splitlines() if l.startswith("CONFIRM")]
    confirm = line[-1] if line else r.stdout[-300:] + r.stderr[-300:]
    ok = ("suite_failed_with_patch=0" in confirm and "demo_with_patch: test result: FAILED" in confirm
          and "demo_without: test result: ok" in confirm)
    notes = open(os.path.join(src, "notes.md")).read()
    meta = {"id": sid, "kind": "agent (campaign 2)", "breaks": props.split(","), "needs_to_manifest": notes[:600],
            "demonstration": "demo.rs (integration test; see its first line)", "confirmed": confirm, "confirmed_ok": ok}
    json.dump(meta, open(os.path.join(dst, "meta.json"), "w"), indent=1)
    print(f"INGEST {sid} confirmed_ok={ok}", flush=True)
    if not ok:
        return 1
    subprocess.run(["python3", "/verif/runner/seedtest.py", dst] + checks)
    return 0

if __name__ == "__main__":
    sys.exit(main())
