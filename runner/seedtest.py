#!/usr/bin/env python3
"""Apply a seeded change to /repo, run the named checks (quick tier), undo the change.
   seedtest.py <seeded dir> <check id> [<check id> ...]
Prints one line per check:  <seed> <check> caught|MISSED|toolerror  (violations)"""
import json, os, subprocess, sys

def main():
    d = os.path.abspath(sys.argv[1])
    checks = sys.argv[2:]
    patch = os.path.join(d, "patch.diff")
    import time
    while os.path.exists("/verif/work/PAUSE"):
        time.sleep(5)
    st = subprocess.run(["git", "-C", "/repo", "status", "--porcelain"], capture_output=True, text=True).stdout.strip()
    if st:
        print("refusing: /repo has uncommitted changes"); return 2
    r = subprocess.run(["git", "-C", "/repo", "apply", patch], capture_output=True, text=True)
    if r.returncode != 0:
        print("patch does not apply:", r.stderr); return 2
    results = {}
    try:
        for c in checks:
            p = subprocess.run(["./check", c, "--tier", "quick"], cwd="/verif", capture_output=True, text=True)
            viol = [l for l in p.stdout.splitlines() if l.startswith("VIOLATION")]
            status = "caught" if p.returncode == 1 and viol else ("MISSED" if p.returncode == 0 else "toolerror")
            first = ""
            if viol:
                try:
                    rp = viol[0].split("replay=")[1]
                    first = json.load(open(rp)).get("what", "")[:160]
                except Exception:
                    pass
            if status == "toolerror":
                first = p.stderr[-400:].replace("\n", " | ")
            results[c] = {"status": status, "violations": len(viol), "first": first}
            print(os.path.basename(d), c, status, len(viol), first, flush=True)
    finally:
        subprocess.run(["git", "-C", "/repo", "checkout", "--", "."])
        subprocess.run(["git", "-C", "/repo", "clean", "-fdq", "crates"])
    mp = os.path.join(d, "meta.json")
    meta = json.load(open(mp)) if os.path.exists(mp) else {}
    meta.setdefault("check_results", {}).update(results)
    json.dump(meta, open(mp, "w"), indent=1)
    return 0

if __name__ == "__main__":
    sys.exit(main())
