"""Runner library: builds the harness from /repo's working tree, runs TLC (model checking,
generators, trace validation), collects violations / known findings and writes evidence."""
import concurrent.futures as cf
import json
import os
import re
import shutil
import subprocess
import sys
import time

VERIF = os.path.dirname(os.path.dirname(os.path.abspath(__file__)))
REPO = "/repo"
WORK = os.path.join(VERIF, "work")
SPEC = os.path.join(VERIF, "spec")
HARNESS = os.path.join(VERIF, "harness")
EVID = os.path.join(VERIF, "evidence")
REPLAYS = os.path.join(VERIF, "replays")
KNOWN = os.path.join(VERIF, "known_findings.json")
GEN = os.path.join(WORK, "gen")


def gen_optable():
    """The operation table of /repo's asm.yml as a TLA+ module (read with an independent reader)."""
    os.makedirs(GEN, exist_ok=True)
    import optable
    out = os.path.join(GEN, "OpTableGen.tla")
    tmp = out + f".{os.getpid()}"
    with open(tmp, "w") as f:
        f.write(optable.tla("OpTableGen", "GenTable", optable.ops_of()))
    os.replace(tmp, out)

TLC_JAR = "/opt/veriftools/tla/tla2tools.jar:/opt/veriftools/tla/CommunityModules-deps.jar"


class ToolError(Exception):
    pass


def log(*a):
    print("[check]", *a, file=sys.stderr, flush=True)


def sh(cmd, timeout=None, env=None, cwd=None):
    e = dict(os.environ)
    if env:
        e.update(env)
    try:
        p = subprocess.run(cmd, cwd=cwd, env=e, stdout=subprocess.PIPE, stderr=subprocess.STDOUT,
                           timeout=timeout, text=True, errors="replace")
        return p.returncode, p.stdout
    except subprocess.TimeoutExpired as ex:
        out = ex.stdout if isinstance(ex.stdout, str) else (ex.stdout or b"").decode(errors="replace")
        return 124, out


# ------------------------------------------------------------------------------------------------
# Build

def cargo_env():
    return {"CARGO_NET_OFFLINE": "true", "CARGO_TERM_COLOR": "never"}


def sync_lock():
    """The harness lock file follows /repo's (path dependencies share its registry versions)."""
    src = os.path.join(REPO, "Cargo.lock")
    dst = os.path.join(HARNESS, "Cargo.lock")
    if not os.path.exists(dst):
        shutil.copy(src, dst)


def cargo_build(profile="dev"):
    sync_lock()
    cmd = ["cargo", "build", "--offline"]
    if profile == "release":
        cmd.append("--release")
    t0 = time.time()
    rc, out = sh(cmd, timeout=1800, env=cargo_env(), cwd=HARNESS)
    if rc != 0:
        sys.stderr.write(out[-6000:])
        raise ToolError(f"cargo build ({profile}) failed rc={rc}")
    log(f"harness built ({profile}) in {time.time() - t0:.1f}s")
    d = "release" if profile == "release" else "debug"
    return os.path.join(HARNESS, "target", d, "vh")


def vh(binary, driver, outdir, seed, tier, extra=None, timeout=3600, shard=None, env=None):
    os.makedirs(outdir, exist_ok=True)
    cmd = [binary, driver, "--out", outdir, "--seed", str(seed), "--tier", tier]
    if shard:
        cmd += ["--shard", f"{shard[0]}/{shard[1]}"]
    for k, v in (extra or {}).items():
        cmd += [f"--{k}", str(v)]
    rc, out = sh(cmd, timeout=timeout, env=env)
    if rc != 0:
        sys.stderr.write(out[-4000:])
        raise ToolError(f"harness driver {driver} failed rc={rc}")
    path = out.strip().splitlines()[-1]
    with open(path) as f:
        return json.load(f)


# ------------------------------------------------------------------------------------------------
# TLC

def tlc_cmd(tla, cfg, workers, metadir, extra_args=(), jvm=()):
    return ["java", "-XX:+UseParallelGC", *jvm, "-cp", TLC_JAR, "tlc2.TLC", "-workers", str(workers),
            "-metadir", metadir, "-cleanup", "-noGenerateSpecTE", "-config", cfg, *extra_args, tla]


RE_STATES = re.compile(r"(\d+) states generated, (\d+) distinct states found")


def parse_tlc(out):
    r = {"generated": 0, "distinct": 0, "ok": False, "invariant": None, "errors": []}
    for m in RE_STATES.finditer(out):
        r["generated"], r["distinct"] = int(m.group(1)), int(m.group(2))
    if "Model checking completed. No error has been found." in out:
        r["ok"] = True
    m = re.search(r"Invariant (\S+) is violated", out)
    if m:
        r["invariant"] = m.group(1)
    m = re.search(r"Temporal properties were violated|Action property (\S+) .* is violated", out)
    if m:
        r["invariant"] = m.group(1) or "temporal"
    for line in out.splitlines():
        if line.startswith("Error:") or "Exception" in line:
            r["errors"].append(line.strip())
    cov = {}
    for m in re.finditer(r"<(\w+) line \d+, col \d+ to line \d+, col \d+ of module (\w+)>: (\d+):(\d+)", out):
        cov[m.group(1)] = cov.get(m.group(1), 0) + int(m.group(4))
    r["coverage"] = cov
    return r


def tlc_mc(name, tla, cfg, workers=8, timeout=1800, coverage=False, xmx="8g", env=None, extra=()):
    """Model-check spec/mc/<tla> with <cfg>.  Returns parsed result + raw output."""
    d = os.path.join(SPEC, "mc")
    meta = os.path.join(WORK, "tlc_" + name)
    args = list(extra)
    if coverage:
        args += ["-coverage", "1"]
    cmd = tlc_cmd(tla, cfg, workers, meta, args, jvm=(f"-Xmx{xmx}", "-Xss512m", f"-DTLA-Library={SPEC}:{GEN}"))
    t0 = time.time()
    rc, out = sh(cmd, timeout=timeout, cwd=d, env=env)
    shutil.rmtree(meta, ignore_errors=True)
    r = parse_tlc(out)
    r["rc"], r["out"], r["wall_s"] = rc, out, time.time() - t0
    if rc == 124:
        raise ToolError(f"TLC timed out on {tla}/{cfg}")
    return r


def tlc_generate(name, tla, cfg, outfile, workers=4, timeout=1800, env=None, extra=()):
    """Run a generator spec: every line  <<"GEN", json>>  printed by TLC becomes one line of
    outfile.  Returns (result, number of lines)."""
    r = tlc_mc(name, tla, cfg, workers=workers, timeout=timeout, env=env, extra=extra)
    n = 0
    with open(outfile, "w") as f:
        for line in r["out"].splitlines():
            if line.startswith('<<"GEN", '):
                body = line[len('<<"GEN", '):].rstrip()
                if body.endswith(">>"):
                    body = body[:-2]
                # TLC prints the JSON as a TLA+ string: unquote
                try:
                    s = json.loads(body)
                except Exception:
                    continue
                f.write(s + "\n")
                n += 1
    return r, n


def tlc_trace(name, tla, cfg, trace_file, timeout=1800, xmx="6g"):
    """Validate one NDJSON trace file against spec/trace/<tla>."""
    d = os.path.join(SPEC, "trace")
    meta = os.path.join(WORK, "tlc_" + name)
    cmd = tlc_cmd(tla, cfg, 1, meta, jvm=(f"-Xmx{xmx}", "-Xss1g", f"-DTLA-Library={SPEC}:{GEN}",
                                           "-Dtlc2.tool.queue.IStateQueue=StateDeque"))
    t0 = time.time()
    rc, out = sh(cmd, timeout=timeout, cwd=d, env={"TRACE": trace_file})
    shutil.rmtree(meta, ignore_errors=True)
    if ("Java ran out of memory" in out or "OutOfMemoryError" in out) and xmx != "24g":
        log(f"TLC ran out of memory ({xmx}) on {os.path.basename(trace_file)}: retrying with 24g")
        return tlc_trace(name, tla, cfg, trace_file, timeout=timeout, xmx="24g")
    if rc == 124:
        raise ToolError(f"TLC timed out validating {trace_file}")
    r = parse_tlc(out)
    r["rc"], r["out"], r["wall_s"] = rc, out, time.time() - t0
    m = re.search(r'"TRACE_REJECTED_AT_LINE", (\d+), "of", (\d+)', out)
    r["rejected_line"] = int(m.group(1)) if m else None
    r["known"] = re.findall(r'<<"(KNOWN_\w+)", (\d+)>>', out)
    if r["invariant"]:
        # the violating state is the last one printed; its l is the next line to consume
        ls = re.findall(r"^/\\ l = (\d+)", out, re.M)
        r["invariant_line"] = int(ls[-1]) - 1 if ls else None
    accepted = r["ok"] and r["rejected_line"] is None and not r["invariant"]
    r["drift"] = "TableDidNotDrift" in out and "is false" in out
    if not accepted and r["rejected_line"] is None and not r["invariant"] and not r["drift"]:
        sys.stderr.write(out[-3000:])
        raise ToolError(f"TLC failed on {trace_file} (rc={rc})")
    r["accepted"] = accepted
    return r


# ------------------------------------------------------------------------------------------------
# Known findings

def load_known():
    if not os.path.exists(KNOWN):
        return {"open": [], "fixed": []}
    with open(KNOWN) as f:
        return json.load(f)


# ------------------------------------------------------------------------------------------------
# Check context

class Ctx:
    def __init__(self, prop, tier, seed, level="model_checking"):
        self.prop, self.tier, self.seed, self.level = prop, tier, seed, level
        self.t0 = time.time()
        self.violations = []       # dicts
        self.known_hits = {}       # finding id -> count
        self.cov = {"states": 0, "transitions": 0, "traces_validated_against_impl": 0, "samples": [],
                    "evaluations": 0, "distinct_nontrivial": 0, "rule": "", "mc": [], "trace_validation": [],
                    "replay": []}
        self.assumptions = []
        self.work = os.path.join(WORK, prop)
        shutil.rmtree(self.work, ignore_errors=True)
        os.makedirs(self.work, exist_ok=True)
        os.makedirs(REPLAYS, exist_ok=True)
        self.known = load_known()
        self._nrep = 0
        gen_optable()

    @property
    def thorough(self):
        return self.tier == "thorough"

    def violation(self, what, replay_obj):
        self._nrep += 1
        if self._nrep > 25:
            # enough replay files; keep counting
            self.violations.append({"what": what, "replay": None})
            return
        path = os.path.join(REPLAYS, f"{self.prop}-{self._nrep}.json")
        with open(path, "w") as f:
            json.dump({"property": self.prop, "what": what, **replay_obj}, f, indent=1)
        self.violations.append({"what": what, "replay": path})
        print(f"VIOLATION property={self.prop} replay={path}", flush=True)
        log("violation:", what)

    def known_finding(self, fid, what):
        if fid not in self.known_hits:
            print(f"KNOWN-FINDING: property={self.prop} {fid} {what}", flush=True)
        self.known_hits[fid] = self.known_hits.get(fid, 0) + 1

    def open_finding(self, fid):
        for f in self.known["open"]:
            if f["id"] == fid and self.prop in f["properties"]:
                return f
        return None

    # -- model checking ---------------------------------------------------------------------
    def mc(self, name, tla, cfg, expect_ok=True, **kw):
        r = tlc_mc(f"{self.prop}_{name}", tla, cfg, **kw)
        self.cov["states"] += r["distinct"]
        self.cov["transitions"] += r["generated"]
        entry = {"model": f"{tla}/{cfg}", "distinct_states": r["distinct"], "states_generated": r["generated"],
                 "wall_s": round(r["wall_s"], 1), "result": "ok" if r["ok"] else (r["invariant"] or "error")}
        if r.get("coverage"):
            entry["never_taken"] = sorted(k for k, v in r["coverage"].items() if v == 0)
        self.cov["mc"].append(entry)
        if expect_ok and not r["ok"]:
            if "TableDidNotDrift" in r["out"] and "is false" in r["out"]:
                self.violation("the operation table of asm.yml differs from the pinned table (spec/OpTablePinned.tla)",
                               {"kind": "table_drift", "model": f"{tla}/{cfg}"})
            elif r["invariant"]:
                tail = r["out"][-6000:]
                self.violation(f"TLC: {r['invariant']} violated in {tla}/{cfg} (design-level counterexample)",
                               {"kind": "tlc_counterexample", "model": f"{tla}/{cfg}", "tlc_output_tail": tail})
            else:
                sys.stderr.write(r["out"][-5000:])
                raise ToolError(f"TLC error in {tla}/{cfg}")
        log(f"M {tla}/{cfg}: {r['distinct']} distinct states, {r['generated']} generated, "
            f"{'ok' if r['ok'] else r['invariant']} in {r['wall_s']:.1f}s")
        return r

    # -- trace validation ----------------------------------------------------------------------
    def validate(self, files, tla, cfg, classify=None, max_rounds=6, jobs=6, run_start="init"):
        """Validate NDJSON batches.  On a rejection the offending run is cut out, reported, and the
        rest of the batch is validated again (so one violation does not hide the others)."""
        def one(path):
            res = []
            cur = path
            offset = 0
            for rnd in range(max_rounds):
                name = f"{self.prop}_{abs(hash(path)) % 10**8}_{os.path.basename(path)}_{rnd}"
                r = tlc_trace(name, tla, cfg, cur)
                res.append((r, cur, offset))
                if r["accepted"] or r.get("drift"):
                    break
                line = r["rejected_line"] if r["rejected_line"] is not None else r.get("invariant_line")
                if line is None:
                    break
                with open(cur) as f:
                    lines = f.readlines()
                # the run containing `line` (1-based)
                s = line - 1
                e = line
                if run_start is not None:
                    while s > 0 and f'"e":"{run_start}"' not in lines[s][:40]:
                        s -= 1
                    while e < len(lines) and f'"e":"{run_start}"' not in lines[e][:40]:
                        e += 1
                r["bad_run"] = lines[s:e]
                r["bad_line_in_run"] = line - 1 - s
                r["bad_orig_index"] = offset + s
                rest = lines[e:]
                if not rest:
                    break
                nxt = f"{path}.rest{rnd}"
                with open(nxt, "w") as f:
                    f.writelines(rest)
                cur = nxt
                offset += e
            return path, res

        consumed = 0
        with cf.ThreadPoolExecutor(max_workers=jobs) as ex:
            for path, res in ex.map(one, files):
                raw = {}
                raw_list = []
                rawp = path + ".raw"
                if os.path.exists(rawp):
                    with open(rawp) as f:
                        for l in f:
                            try:
                                o = json.loads(l)
                                raw[o["label"]] = o["case"]
                                raw_list.append(o)
                            except Exception:
                                pass
                for r, cur, offset in res:
                    consumed += max(r["distinct"] - 1, 0)
                    for tok, ln in r["known"]:
                        self._known_token(tok, ln, cur)
                    if r["accepted"]:
                        continue
                    if r.get("drift"):
                        if not any(v["what"].startswith("the operation table") for v in self.violations):
                            self.violation("the operation table of asm.yml differs from the pinned table "
                                           "(spec/OpTablePinned.tla)", {"kind": "table_drift"})
                        continue
                    bad = r.get("bad_run") or []
                    label = None
                    if bad:
                        try:
                            label = json.loads(bad[0]).get("label")
                        except Exception:
                            pass
                    if label is None and run_start is None and r.get("bad_orig_index") is not None \
                            and r["bad_orig_index"] < len(raw_list):
                        # one event per run: the sidecar lines are in event order
                        label = raw_list[r["bad_orig_index"]]["label"]
                    what = (f"invariant {r['invariant']} violated" if r["invariant"]
                            else "trace rejected by the specification")
                    info = {"kind": "trace", "spec": f"{tla}/{cfg}", "label": label,
                            "case": raw.get(label), "what_tlc_saw": what,
                            "rejected_event_index_in_run": r.get("bad_line_in_run"),
                            "events": [json.loads(x) for x in bad[:400]]}
                    handled = classify(self, info) if classify else False
                    if not handled:
                        self.violation(f"{what}: run {label}", info)
        self.cov["traces_validated_against_impl"] += consumed
        self.cov["trace_validation"].append({"spec": f"{tla}/{cfg}", "files": len(files), "events_consumed": consumed})
        return consumed

    def _known_token(self, tok, line, path):
        fid = tok.replace("KNOWN_", "").split("_")[0]
        f = self.open_finding(fid)
        if f:
            self.known_finding(fid, f["what"])
        else:
            self.violation(f"specification deviation {tok} observed but not listed as an open finding",
                           {"kind": "deviation", "token": tok, "file": path, "line": int(line)})

    # -- evidence ------------------------------------------------------------------------------
    def finish(self):
        wall = time.time() - self.t0
        cov = dict(self.cov)
        if not cov["samples"]:
            cov["samples"] = [{"note": "no sample recorded"}]
        cov["samples"] = cov["samples"][:8]
        cov["known_findings_hit"] = self.known_hits
        ev = {"property_id": self.prop, "tier": self.tier, "seed": self.seed, "level": self.level,
              "coverage": cov, "assumptions": self.assumptions, "wall_s": round(wall, 1),
              "violations": len(self.violations)}
        os.makedirs(EVID, exist_ok=True)
        if self.prop.startswith("C"):
            with open(os.path.join(EVID, f"{self.prop}.json"), "w") as f:
                json.dump(ev, f, indent=1)
        log(f"{self.prop} {self.tier}: {len(self.violations)} violation(s), "
            f"{cov['states']} states, {cov['traces_validated_against_impl']} events validated, {wall:.0f}s")
        if self.tier == "quick" or not self.violations:
            shutil.rmtree(self.work, ignore_errors=True)
        return 1 if self.violations else 0


def main(argv):
    import props
    if not argv:
        print(__doc__)
        return 2
    if argv[0] == "--setup":
        try:
            cargo_build("dev")
            cargo_build("release")
            gen_optable()
            rc, out = sh(["bash", "-c", f"cd {SPEC} && for f in *.tla mc/*.tla trace/*.tla; do "
                          f"java -cp {TLC_JAR} -DTLA-Library={SPEC}:{GEN} tla2sany.SANY $f >/dev/null 2>&1 || echo FAIL $f; done"],
                         timeout=600)
            if "FAIL" in out:
                sys.stderr.write(out)
                return 2
            return 0
        except ToolError as e:
            log("setup failed:", e)
            return 2
    prop = argv[0]
    tier = os.environ.get("VERIF_TIER", "quick")
    replay = None
    i = 1
    while i < len(argv):
        if argv[i] == "--tier":
            tier = argv[i + 1]
            i += 2
        elif argv[i] == "--replay":
            replay = argv[i + 1]
            i += 2
        else:
            i += 1
    seed = int(os.environ.get("VERIF_SEED", "1"))
    fn = getattr(props, prop, None)
    if fn is None:
        log(f"no check registered for {prop}")
        return 2
    try:
        if replay:
            return props.replay(prop, replay, seed)
        ctx = Ctx(prop, tier, seed, level=props.LEVELS.get(prop, "model_checking"))
        fn(ctx)
        return ctx.finish()
    except ToolError as e:
        log("TOOL ERROR:", e)
        return 2
