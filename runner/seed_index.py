#!/usr/bin/env python3
"""Writes seeded/INDEX.md from the meta.json files."""
import json, os, glob
rows = []
for d in sorted(glob.glob("/verif/seeded/*/")):
    mp = os.path.join(d, "meta.json")
    if not os.path.exists(mp):
        continue
    m = json.load(open(mp))
    res = m.get("check_results", {})
    rows.append((os.path.basename(d.rstrip("/")), m.get("kind", ""), ", ".join(m.get("breaks", [])), m.get("needs_to_manifest", ""),
                 "; ".join(f"{c}: {r['status']} ({r['violations']})" for c, r in sorted(res.items()))))
with open("/verif/seeded/INDEX.md", "w") as f:
    f.write("# Seeded changes\n\nEach directory holds `patch.diff` (apply with `git -C /repo apply`), the demonstration and `meta.json`.\n"
            "`R-*` = revert of a `fix:` commit; `S-*` = written by an independent sub-agent that saw only the property text.\n"
            "All compile and pass the 246 existing tests. Results are from `runner/seedtest.py` (quick tier).\n\n")
    f.write("| id | kind | breaks | needs to manifest | checks (violations) |\n|---|---|---|---|---|\n")
    for r in rows:
        f.write("| " + " | ".join(x.replace("|", "/").replace("\n", " ") for x in r) + " |\n")
print(len(rows), "seeds")
