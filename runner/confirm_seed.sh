#!/bin/bash
# confirm_seed.sh <worktree> <seed dir in worktree> <crate> <demo test name> <demo dest path in worktree>
# Confirms: with the patch the existing suite passes and the demo fails; without it the demo passes.
set -u
WT=$1; SD=$2; CRATE=$3; DEMO=$4; DEST=$5
cd $WT || exit 2
git checkout -q -- . ; rm -f $DEST
git apply $SD/patch.diff || { echo "CONFIRM patch does not apply"; exit 2; }
suite=$(cargo test --workspace --no-fail-fast --offline 2>&1 | grep -E "^test result" | awk '{f+=$6} END {print f+0}')
mkdir -p $(dirname $DEST); cp $SD/demo.rs $DEST
with=$(cargo test -p $CRATE --test $DEMO --offline 2>&1 | grep -E "^test result" | tail -1)
git apply -R $SD/patch.diff
without=$(cargo test -p $CRATE --test $DEMO --offline 2>&1 | grep -E "^test result" | tail -1)
rm -f $DEST; git checkout -q -- .
echo "CONFIRM $SD suite_failed_with_patch=$suite | demo_with_patch: $with | demo_without: $without"
